/-
  Helper lemmas for C09's `forms_agree`: well-formed UTF-8 (what `validate_utf8` accepts) is closed
  under cutting at occurrences of a well-formed separator, in both case modes.  `Valid` is the
  character structure of accepted text (lead byte of one of four classes + continuation bytes);
  the three structural facts are: a well-formed prefix does not change the verdict on the rest,
  well-formed text can be cut wherever no continuation byte stands, ASCII case folding keeps the
  byte classes.
-/
import StVerif.Lemmas.Split
import StVerif.Model.Utf

namespace StVerif.Lemmas.Utf8Split
open StVerif StVerif.Utf StVerif.Search StVerif.Spec.Search

/-- continuation byte `10xxxxxx` -/
abbrev Cont (b : Nat) : Prop := b &&& 0xC0 = 0x80
abbrev L1 (b : Nat) : Prop := b < 0x80
abbrev L2 (b : Nat) : Prop := ¬ b < 0x80 ∧ b &&& 0xE0 = 0xC0
abbrev L3 (b : Nat) : Prop := ¬ b < 0x80 ∧ ¬ b &&& 0xE0 = 0xC0 ∧ b &&& 0xF0 = 0xE0
abbrev L4 (b : Nat) : Prop := ¬ b < 0x80 ∧ ¬ b &&& 0xE0 = 0xC0 ∧ ¬ b &&& 0xF0 = 0xE0 ∧ b &&& 0xF8 = 0xF0

/-- what `validate_utf8` accepts: a sequence of characters, each a lead byte of one of the four
    classes followed by the right number of continuation bytes -/
inductive Valid : List Nat → Prop
  | nil : Valid []
  | c1 (b : Nat) (r : List Nat) : L1 b → Valid r → Valid (b :: r)
  | c2 (b0 b1 : Nat) (r : List Nat) : L2 b0 → Cont b1 → Valid r → Valid (b0 :: b1 :: r)
  | c3 (b0 b1 b2 : Nat) (r : List Nat) : L3 b0 → Cont b1 → Cont b2 → Valid r → Valid (b0 :: b1 :: b2 :: r)
  | c4 (b0 b1 b2 b3 : Nat) (r : List Nat) : L4 b0 → Cont b1 → Cont b2 → Cont b3 → Valid r → Valid (b0 :: b1 :: b2 :: b3 :: r)

theorem valid_of_validate (xs : List Nat) (h : validateUtf8 xs = 0) : Valid xs := by
  fun_induction validateUtf8 xs with
  | case1 => exact Valid.nil
  | case2 b0 rest hb ih => exact Valid.c1 b0 rest hb (ih h)
  | case3 b0 hb h2 b1 r hc => exact absurd h (by decide)
  | case4 b0 hb h2 b1 r hc ih => exact Valid.c2 b0 b1 r ⟨hb, h2⟩ (by unfold Cont; omega) (ih h)
  | case5 b0 hb h2 => exact absurd h (by decide)
  | case6 b0 hb h2 h3 b1 b2 r hc => exact absurd h (by decide)
  | case7 b0 hb h2 h3 b1 b2 r hc1 hc2 => exact absurd h (by decide)
  | case8 b0 hb h2 h3 b1 b2 r hc1 hc2 ih => exact Valid.c3 b0 b1 b2 r ⟨hb, h2, h3⟩ (by unfold Cont; omega) (by unfold Cont; omega) (ih h)
  | case9 b0 rest hb h2 h3 hr => exact absurd h (by decide)
  | case10 b0 hb h2 h3 h4 b1 b2 b3 r hc => exact absurd h (by decide)
  | case11 b0 hb h2 h3 h4 b1 b2 b3 r hc1 hc2 => exact absurd h (by decide)
  | case12 b0 hb h2 h3 h4 b1 b2 b3 r hc1 hc2 hc3 => exact absurd h (by decide)
  | case13 b0 hb h2 h3 h4 b1 b2 b3 r hc1 hc2 hc3 ih =>
    exact Valid.c4 b0 b1 b2 b3 r ⟨hb, h2, h3, h4⟩ (by unfold Cont; omega) (by unfold Cont; omega) (by unfold Cont; omega) (ih h)
  | case14 b0 rest hb h2 h3 h4 hr => exact absurd h (by decide)
  | case15 b0 rest hb h2 h3 h4 => exact absurd h (by decide)

theorem validate_of_valid (xs : List Nat) (h : Valid xs) : validateUtf8 xs = 0 := by
  induction h with
  | nil => rfl
  | c1 b r hb _ ih => unfold validateUtf8; rw [if_pos hb]; exact ih
  | c2 b0 b1 r hl hc _ ih =>
    unfold validateUtf8
    rw [if_neg hl.1, if_pos hl.2]
    simp only []
    rw [if_neg (by unfold Cont at hc; omega)]; exact ih
  | c3 b0 b1 b2 r hl hc1 hc2 _ ih =>
    unfold validateUtf8
    rw [if_neg hl.1, if_neg hl.2.1, if_pos hl.2.2]
    simp only []
    rw [if_neg (by unfold Cont at hc1; omega), if_neg (by unfold Cont at hc2; omega)]; exact ih
  | c4 b0 b1 b2 b3 r hl hc1 hc2 hc3 _ ih =>
    unfold validateUtf8
    rw [if_neg hl.1, if_neg hl.2.1, if_neg hl.2.2.1, if_pos hl.2.2.2]
    simp only []
    rw [if_neg (by unfold Cont at hc1; omega), if_neg (by unfold Cont at hc2; omega), if_neg (by unfold Cont at hc3; omega)]; exact ih

theorem valid_iff (xs : List Nat) : Valid xs ↔ validateUtf8 xs = 0 := ⟨validate_of_valid xs, valid_of_validate xs⟩

/-! ### bit facts about the byte classes -/

theorem and_192_of_and_224 (b : Nat) (h : b &&& 224 = 192) : b &&& 192 = 192 := by
  have e : (b &&& 224) &&& 192 = b &&& 192 := by rw [Nat.and_assoc]; rfl
  rw [← e, h]; decide
theorem and_192_of_and_240 (b : Nat) (h : b &&& 240 = 224) : b &&& 192 = 192 := by
  have e : (b &&& 240) &&& 192 = b &&& 192 := by rw [Nat.and_assoc]; rfl
  rw [← e, h]; decide
theorem and_192_of_and_248 (b : Nat) (h : b &&& 248 = 240) : b &&& 192 = 192 := by
  have e : (b &&& 248) &&& 192 = b &&& 192 := by rw [Nat.and_assoc]; rfl
  rw [← e, h]; decide

/-- a continuation byte is at least 0x80 -/
theorem cont_ge (b : Nat) (h : Cont b) : 128 ≤ b := by
  have := @Nat.and_le_left b 192
  unfold Cont at h
  omega

/-- a lead byte of any class is not a continuation byte -/
theorem lead_not_cont (b : Nat) (h : L1 b ∨ L2 b ∨ L3 b ∨ L4 b) : ¬ Cont b := by
  intro hc
  rcases h with h | h | h | h
  · have := cont_ge b hc; unfold L1 at h; omega
  · have := and_192_of_and_224 b h.2; unfold Cont at hc; omega
  · have := and_192_of_and_240 b h.2.2; unfold Cont at hc; omega
  · have := and_192_of_and_248 b h.2.2.2; unfold Cont at hc; omega

theorem valid_head_not_cont (b : Nat) (r : List Nat) (h : Valid (b :: r)) : ¬ Cont b := by
  cases h with
  | c1 _ _ hl _ => exact lead_not_cont b (Or.inl hl)
  | c2 _ _ _ hl _ _ => exact lead_not_cont b (Or.inr (Or.inl hl))
  | c3 _ _ _ _ hl _ _ _ => exact lead_not_cont b (Or.inr (Or.inr (Or.inl hl)))
  | c4 _ _ _ _ _ hl _ _ _ _ => exact lead_not_cont b (Or.inr (Or.inr (Or.inr hl)))

/-! ### structure -/

/-- well-formed text in front does not change the verdict on what follows -/
theorem validate_append (x y : List Nat) (h : Valid x) : validateUtf8 (x ++ y) = validateUtf8 y := by
  induction h with
  | nil => rfl
  | c1 b r hb _ ih =>
    rw [List.cons_append]
    conv => lhs; unfold validateUtf8
    rw [if_pos hb]; exact ih
  | c2 b0 b1 r hl hc _ ih =>
    rw [List.cons_append, List.cons_append]
    conv => lhs; unfold validateUtf8
    rw [if_neg hl.1, if_pos hl.2]
    simp only []
    rw [if_neg (by unfold Cont at hc; omega)]; exact ih
  | c3 b0 b1 b2 r hl hc1 hc2 _ ih =>
    rw [List.cons_append, List.cons_append, List.cons_append]
    conv => lhs; unfold validateUtf8
    rw [if_neg hl.1, if_neg hl.2.1, if_pos hl.2.2]
    simp only []
    rw [if_neg (by unfold Cont at hc1; omega), if_neg (by unfold Cont at hc2; omega)]; exact ih
  | c4 b0 b1 b2 b3 r hl hc1 hc2 hc3 _ ih =>
    rw [List.cons_append, List.cons_append, List.cons_append, List.cons_append]
    conv => lhs; unfold validateUtf8
    rw [if_neg hl.1, if_neg hl.2.1, if_neg hl.2.2.1, if_pos hl.2.2.2]
    simp only []
    rw [if_neg (by unfold Cont at hc1; omega), if_neg (by unfold Cont at hc2; omega), if_neg (by unfold Cont at hc3; omega)]; exact ih

/-- well-formed text can be cut at any position that does not hold a continuation byte -/
theorem valid_cut (s : List Nat) (h : Valid s) (i : Nat) (hi : ∀ b, s[i]? = some b → ¬ Cont b) :
    Valid (s.take i) ∧ Valid (s.drop i) := by
  induction h generalizing i with
  | nil => simp; exact Valid.nil
  | c1 b r hb hr ih =>
    cases i with
    | zero => exact ⟨Valid.nil, Valid.c1 b r hb hr⟩
    | succ j =>
      have := ih j (fun c hc => hi c (by simpa using hc))
      exact ⟨Valid.c1 b _ hb this.1, this.2⟩
  | c2 b0 b1 r hl hc hr ih =>
    match i with
    | 0 => exact ⟨Valid.nil, Valid.c2 b0 b1 r hl hc hr⟩
    | 1 => exact absurd hc (hi b1 rfl)
    | j + 2 =>
      have := ih j (fun c hc => hi c (by simpa using hc))
      exact ⟨Valid.c2 b0 b1 _ hl hc this.1, this.2⟩
  | c3 b0 b1 b2 r hl hc1 hc2 hr ih =>
    match i with
    | 0 => exact ⟨Valid.nil, Valid.c3 b0 b1 b2 r hl hc1 hc2 hr⟩
    | 1 => exact absurd hc1 (hi b1 rfl)
    | 2 => exact absurd hc2 (hi b2 rfl)
    | j + 3 =>
      have := ih j (fun c hc => hi c (by simpa using hc))
      exact ⟨Valid.c3 b0 b1 b2 _ hl hc1 hc2 this.1, this.2⟩
  | c4 b0 b1 b2 b3 r hl hc1 hc2 hc3 hr ih =>
    match i with
    | 0 => exact ⟨Valid.nil, Valid.c4 b0 b1 b2 b3 r hl hc1 hc2 hc3 hr⟩
    | 1 => exact absurd hc1 (hi b1 rfl)
    | 2 => exact absurd hc2 (hi b2 rfl)
    | 3 => exact absurd hc3 (hi b3 rfl)
    | j + 4 =>
      have := ih j (fun c hc => hi c (by simpa using hc))
      exact ⟨Valid.c4 b0 b1 b2 b3 _ hl hc1 hc2 hc3 this.1, this.2⟩

/-! ### ASCII case folding keeps the byte classes -/

theorem fold_ge (b b' : Nat) (hb : 128 ≤ b) (h : foldAscii b = foldAscii b') : b' = b := by
  unfold foldAscii at h
  split at h <;> split at h <;> omega

theorem fold_lt (b b' : Nat) (hb : b < 128) (h : foldAscii b = foldAscii b') : b' < 128 := by
  unfold foldAscii at h
  split at h <;> split at h <;> omega

theorem map_cons_eq (f : Nat → Nat) (a : Nat) (t y : List Nat) (h : (a :: t).map f = y.map f) :
    ∃ a' t', y = a' :: t' ∧ f a = f a' ∧ t.map f = t'.map f := by
  cases y with
  | nil => simp at h
  | cons a' t' =>
    simp only [List.map_cons, List.cons.injEq] at h
    exact ⟨a', t', rfl, h.1, h.2⟩

/-- text that equals well-formed text up to ASCII case is well-formed -/
theorem valid_of_fold_eq (x y : List Nat) (hx : Valid x) (h : x.map foldAscii = y.map foldAscii) : Valid y := by
  induction hx generalizing y with
  | nil =>
    have : y = [] := by cases y with | nil => rfl | cons _ _ => simp at h
    rw [this]; exact Valid.nil
  | c1 b r hb _ ih =>
    obtain ⟨b', r', rfl, h0, hr⟩ := map_cons_eq _ _ _ _ h
    exact Valid.c1 b' r' (fold_lt b b' hb h0) (ih r' hr)
  | c2 b0 b1 r hl hc _ ih =>
    obtain ⟨b0', y1, rfl, h0, hr1⟩ := map_cons_eq _ _ _ _ h
    obtain ⟨b1', r', rfl, h1, hr⟩ := map_cons_eq _ _ _ _ hr1
    have e0 := fold_ge b0 b0' (by have := hl.1; omega) h0
    have e1 := fold_ge b1 b1' (cont_ge b1 hc) h1
    subst e0; subst e1
    exact Valid.c2 _ _ r' hl hc (ih r' hr)
  | c3 b0 b1 b2 r hl hc1 hc2 _ ih =>
    obtain ⟨b0', y1, rfl, h0, hr1⟩ := map_cons_eq _ _ _ _ h
    obtain ⟨b1', y2, rfl, h1, hr2⟩ := map_cons_eq _ _ _ _ hr1
    obtain ⟨b2', r', rfl, h2, hr⟩ := map_cons_eq _ _ _ _ hr2
    have e0 := fold_ge b0 b0' (by have := hl.1; omega) h0
    have e1 := fold_ge b1 b1' (cont_ge b1 hc1) h1
    have e2 := fold_ge b2 b2' (cont_ge b2 hc2) h2
    subst e0; subst e1; subst e2
    exact Valid.c3 _ _ _ r' hl hc1 hc2 (ih r' hr)
  | c4 b0 b1 b2 b3 r hl hc1 hc2 hc3 _ ih =>
    obtain ⟨b0', y1, rfl, h0, hr1⟩ := map_cons_eq _ _ _ _ h
    obtain ⟨b1', y2, rfl, h1, hr2⟩ := map_cons_eq _ _ _ _ hr1
    obtain ⟨b2', y3, rfl, h2, hr3⟩ := map_cons_eq _ _ _ _ hr2
    obtain ⟨b3', r', rfl, h3, hr⟩ := map_cons_eq _ _ _ _ hr3
    have e0 := fold_ge b0 b0' (by have := hl.1; omega) h0
    have e1 := fold_ge b1 b1' (cont_ge b1 hc1) h1
    have e2 := fold_ge b2 b2' (cont_ge b2 hc2) h2
    have e3 := fold_ge b3 b3' (cont_ge b3 hc3) h3
    subst e0; subst e1; subst e2; subst e3
    exact Valid.c4 _ _ _ _ r' hl hc1 hc2 hc3 (ih r' hr)

/-! ### cutting well-formed text at occurrences of a well-formed separator -/

open StVerif.Spec.Slice (firstOcc)
open StVerif.Spec.Split (splitAux)
open StVerif.Lemmas.Slice (firstOcc_some)
open StVerif.Lemmas.Split (splitAux_hit splitAux_miss)

/-- the window of the text at an occurrence is well-formed when the separator is -/
theorem window_valid (cs : CaseMode) (s sep : List Nat) (i : Nat) (hsep : Valid sep) (ho : occursAt cs s sep i) :
    Valid (window s i sep.length) := by
  have h := ho.2
  cases cs with
  | sensitive =>
    have : window s i sep.length = sep := h
    rw [this]; exact hsep
  | insensitive => exact valid_of_fold_eq sep _ hsep h.symm

/-- an occurrence of a well-formed non-empty separator in well-formed text starts and ends on
    character boundaries: what precedes it and what follows it are well-formed -/
theorem valid_around_occurrence (cs : CaseMode) (s sep : List Nat) (i : Nat) (hs : Valid s) (hsep : Valid sep)
    (hne : sep ≠ []) (ho : occursAt cs s sep i) :
    Valid (s.take i) ∧ Valid (s.drop (i + sep.length)) := by
  have hw := window_valid cs s sep i hsep ho
  have hle := ho.1
  have hpos : 0 < sep.length := List.length_pos_iff.2 hne
  -- the window is `s[i] :: …`, so `s[i]` is a lead byte
  have hwl : (window s i sep.length).length = sep.length := by simp [window]; omega
  have hcut : Valid (s.take i) ∧ Valid (s.drop i) := by
    apply valid_cut s hs i
    intro b hb
    have hi : i < s.length := by omega
    have hb' : s[i] = b := by rw [List.getElem?_eq_getElem hi] at hb; exact Option.some.inj hb
    have hwe : window s i sep.length = b :: (window s i sep.length).tail := by
      cases hwc : window s i sep.length with
      | nil => rw [hwc] at hwl; simp at hwl; omega
      | cons a t =>
        have : (window s i sep.length)[0]? = some a := by rw [hwc]; rfl
        unfold window at this
        rw [List.getElem?_take_of_lt hpos, List.getElem?_drop, Nat.add_zero, List.getElem?_eq_getElem hi] at this
        have : s[i] = a := Option.some.inj this
        rw [← this, hb']; rfl
    rw [hwe] at hw
    exact valid_head_not_cont b _ hw
  refine ⟨hcut.1, ?_⟩
  have hsplit : s.drop i = window s i sep.length ++ s.drop (i + sep.length) := by
    unfold window
    rw [← List.drop_drop, List.take_append_drop]
  have h2 := hcut.2
  rw [hsplit, valid_iff, validate_append _ _ hw] at h2
  exact (valid_iff _).2 h2

/-- every piece of the specified split of well-formed text by a well-formed separator is well-formed -/
theorem splitAux_valid (cs : CaseMode) (sep : List Nat) (hsep : Valid sep) (fuel max : Nat) (s : List Nat) (hs : Valid s) :
    ∀ p ∈ splitAux cs sep fuel max s, Valid p := by
  induction fuel generalizing max s with
  | zero => intro p hp; simp [splitAux] at hp; rw [hp]; exact hs
  | succ f ih =>
    intro p hp
    by_cases hm : max = 0
    · rw [splitAux_miss cs sep f max s (Or.inl hm)] at hp; simp at hp; rw [hp]; exact hs
    · cases h : firstOcc cs s sep with
      | none => rw [splitAux_miss cs sep f max s (Or.inr h)] at hp; simp at hp; rw [hp]; exact hs
      | some i =>
        obtain ⟨hne, ho, _⟩ := firstOcc_some h
        have hv := valid_around_occurrence cs s sep i hs hsep hne ho
        rw [splitAux_hit cs sep f max s i hm h] at hp
        rcases List.mem_cons.1 hp with e | e
        · rw [e]; exact hv.1
        · exact ih (max - 1) _ hv.2 p e

end StVerif.Lemmas.Utf8Split
