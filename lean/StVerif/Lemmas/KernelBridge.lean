/-
  Bridge between the kernels translated from the C++ source on every run
  (StVerif/Generated/Kernels.lean, written by tools/gen_kernels.py from the clang AST) and the
  hand-written model the property theorems are about (StVerif/Model/*.lean).

  Every theorem here has the shape `generated = model` (for all inputs, no bound), so a change of a
  mask, a bound, a shift, a range test or the order of two statements in one of these C++
  functions changes the generated definition and the theorem stops checking: the tie between the
  model and the code is, for these functions, a proof obligation re-checked on every run, not only
  a differential test.  `extract_*_ok` additionally show, at the level of the translated loads,
  that a decoding step started inside the source never reads outside it (the part of C03 that the
  list-based model cannot express).
-/
import StVerif.Generated.Kernels
import StVerif.Model.Utf
import StVerif.Model.Search
import StVerif.Model.Codec
open StVerif StVerif.Cxx StVerif.Generated StVerif.Utf

namespace StVerif.KernelBridge
theorem error_char_eq (k : Int) : Kernels.error_char k = .ok (errorChar k.toNat) := rfl

theorem utf8_measure_eq (ch : Nat) : Kernels.utf8_measure ch = .ok (utf8Measure ch) := by
  unfold Kernels.utf8_measure utf8Measure
  repeat' split
  all_goals first | rfl | (simp [badcharSubstituteUtf8])

theorem utf16_measure_eq (ch : Nat) : Kernels.utf16_measure ch = .ok (utf16Measure ch) := by
  unfold Kernels.utf16_measure utf16Measure
  repeat' split
  all_goals first | rfl | omega

theorem write_utf8_eq (ch : Nat) :
    Kernels.write_utf8 ch = .ok (match writeUtf8 ch with | some us => ((0 : Int), us) | none => ((4 : Int), [])) := by
  unfold Kernels.write_utf8 writeUtf8
  repeat' split
  all_goals first | rfl | simp_all

theorem write_utf16_eq (ch : Nat) :
    Kernels.write_utf16 ch = .ok (match writeUtf16 ch with | some us => ((0 : Int), us) | none => ((4 : Int), [])) := by
  unfold Kernels.write_utf16 writeUtf16
  repeat' split
  all_goals first | rfl | simp_all


theorem rd_drop {mem l : List Nat} {p : Nat} (h : mem.drop p = l) (k : Nat) :
    rd mem (p + k) = match l[k]? with | some v => .ok v | none => .error (.oobRead (p + k)) := by
  subst h
  simp only [rd, List.getElem?_drop]
  rfl

theorem len_drop {mem l : List Nat} {p : Nat} (h : mem.drop p = l) (hp : p ≤ mem.length) : mem.length = p + l.length := by
  subst h; simp; omega

theorem drop_add {mem l : List Nat} {p : Nat} (h : mem.drop p = l) (k : Nat) : mem.drop (p + k) = l.drop k := by
  subst h; simp [List.drop_drop]

theorem decodeUtf8_nil : decodeUtf8 [] = [] := by simp [decodeUtf8]

set_option hygiene false in
macro "kernel_step" : tactic => `(tactic| (
    simp only [List.getElem?_cons_zero, List.getElem?_cons_succ, List.getElem?_nil, List.length_cons, List.length_nil,
      List.drop_succ_cons, List.drop_zero, List.drop_nil, Nat.zero_add] at hlen r0 r1 r2 r3 d1 d2 d3 d4 h ⊢
    unfold Kernels.extract_utf8 at h
    rw [decodeUtf8]
    simp only [rd8, r0, r1, r2, r3, e2, e3, e4, ok_bind, error_bind, pure_eq_ok, Kernels.error_char] at h
    repeat' split at h
    all_goals first
      | (cases h
         refine ⟨by omega, by omega, ?_⟩
         simp only [*, ↓reduceIte, e2, e3, e4, errorChar, errIncompleteUtf8, errInvalidUtf8, decodeUtf8_nil, Int.toNat_one, not_true_eq_false, not_false_eq_true, ne_eq]
         first | rfl | done | (simp_all; done))
      | (exfalso; first | omega | (cases h)) ))

/-- one call of the translated `extract_utf8` at any position inside the source, when it returns: it
    advanced, stayed inside the source, and returned what the hand-written model's decoder produces there -/
theorem extract_utf8_sound (mem : List Nat) (p v p' : Nat) (hp : p < mem.length)
    (h : Kernels.extract_utf8 mem p mem.length = .ok (v, p')) :
    p < p' ∧ p' ≤ mem.length ∧ decodeUtf8 (mem.drop p) = v :: decodeUtf8 (mem.drop p') := by
  generalize hl : mem.drop p = l
  have hlen := len_drop hl (by omega)
  have r0 := rd_drop hl 0
  have r1 := rd_drop hl 1
  have r2 := rd_drop hl 2
  have r3 := rd_drop hl 3
  have d1 := drop_add hl 1
  have d2 := drop_add hl 2
  have d3 := drop_add hl 3
  have d4 := drop_add hl 4
  have e2 : p + 1 + 1 = p + 2 := by omega
  have e3 : p + 2 + 1 = p + 3 := by omega
  have e4 : p + 3 + 1 = p + 4 := by omega
  simp only [Nat.add_zero] at r0
  rw [hlen] at h ⊢
  clear hl
  rcases l with _ | ⟨b0, _ | ⟨b1, _ | ⟨b2, _ | ⟨b3, r⟩⟩⟩⟩
  · simp at hlen; omega
  · kernel_step
  · kernel_step
  · kernel_step
  · kernel_step

set_option hygiene false in
macro "kernel_ok" : tactic => `(tactic| (
    simp only [List.getElem?_cons_zero, List.getElem?_cons_succ, List.getElem?_nil, List.length_cons, List.length_nil,
      Nat.zero_add] at hlen r0 r1 r2 r3 ⊢
    unfold Kernels.extract_utf8
    simp only [rd8, r0, r1, r2, r3, e2, e3, e4, ok_bind, error_bind, pure_eq_ok, Kernels.error_char]
    repeat' split
    all_goals first | rfl | (exfalso; omega)))

/-- one call of the translated `extract_utf8` at any position inside the source never reads outside the source -/
theorem extract_utf8_ok (mem : List Nat) (p : Nat) (hp : p < mem.length) :
    isOk (Kernels.extract_utf8 mem p mem.length) = true := by
  generalize hl : mem.drop p = l
  have hlen := len_drop hl (by omega)
  have r0 := rd_drop hl 0
  have r1 := rd_drop hl 1
  have r2 := rd_drop hl 2
  have r3 := rd_drop hl 3
  have e2 : p + 1 + 1 = p + 2 := by omega
  have e3 : p + 2 + 1 = p + 3 := by omega
  have e4 : p + 3 + 1 = p + 4 := by omega
  simp only [Nat.add_zero] at r0
  rw [hlen]
  clear hl
  rcases l with _ | ⟨b0, _ | ⟨b1, _ | ⟨b2, _ | ⟨b3, r⟩⟩⟩⟩
  · simp at hlen; omega
  · kernel_ok
  · kernel_ok
  · kernel_ok
  · kernel_ok


/-! ### extract_utf16 -/

set_option hygiene false in
macro "kernel16_step" : tactic => `(tactic| (
    simp only [List.getElem?_cons_zero, List.getElem?_cons_succ, List.getElem?_nil, List.length_cons, List.length_nil,
      List.drop_succ_cons, List.drop_zero, List.drop_nil, Nat.zero_add, Nat.add_zero] at hlen r0 r1 d1 d2 h ⊢
    unfold Kernels.extract_utf16 at h
    rw [decodeUtf16]
    simp only [rd16, r0, r1, Nat.add_zero, ok_bind, error_bind, pure_eq_ok, Kernels.error_char] at h
    repeat' split at h
    all_goals first
      | (cases h
         refine ⟨by omega, by omega, ?_⟩
         simp only [*, ↓reduceIte, errorChar, errIncompleteSurrogate, decodeUtf16_nil, not_true_eq_false, not_false_eq_true, ne_eq, and_self, and_true, true_and, ge_iff_le]
         first | rfl | done | (simp_all; done) | (exfalso; omega) | (split <;> first | rfl | (exfalso; omega) | simp_all))
      | (exfalso; first | omega | (cases h)) ))

theorem decodeUtf16_nil : decodeUtf16 [] = [] := by simp [decodeUtf16]

/-- one call of the translated `extract_utf16`, when it returns -/
theorem extract_utf16_sound (mem : List Nat) (p v p' : Nat) (hp : p < mem.length)
    (h : Kernels.extract_utf16 mem p mem.length = .ok (v, p')) :
    p < p' ∧ p' ≤ mem.length ∧ decodeUtf16 (mem.drop p) = v :: decodeUtf16 (mem.drop p') := by
  generalize hl : mem.drop p = l
  have hlen := len_drop hl (by omega)
  have r0 := rd_drop hl 0
  have r1 := rd_drop hl 1
  have d1 := drop_add hl 1
  have d2 := drop_add hl 2
  simp only [Nat.add_zero] at r0
  rw [hlen] at h ⊢
  clear hl
  rcases l with _ | ⟨u0, _ | ⟨u1, r⟩⟩
  · simp at hlen; omega
  · kernel16_step
  · kernel16_step

set_option hygiene false in
macro "kernel16_ok" : tactic => `(tactic| (
    simp only [List.getElem?_cons_zero, List.getElem?_cons_succ, List.getElem?_nil, List.length_cons, List.length_nil,
      Nat.zero_add] at hlen r0 r1 ⊢
    unfold Kernels.extract_utf16
    simp only [rd16, r0, r1, Nat.add_zero, ok_bind, error_bind, pure_eq_ok, Kernels.error_char]
    repeat' split
    all_goals first | rfl | (exfalso; omega)))

/-- one call of the translated `extract_utf16` at any position inside the source never reads outside the source -/
theorem extract_utf16_ok (mem : List Nat) (p : Nat) (hp : p < mem.length) :
    isOk (Kernels.extract_utf16 mem p mem.length) = true := by
  generalize hl : mem.drop p = l
  have hlen := len_drop hl (by omega)
  have r0 := rd_drop hl 0
  have r1 := rd_drop hl 1
  simp only [Nat.add_zero] at r0
  rw [hlen]
  clear hl
  rcases l with _ | ⟨u0, _ | ⟨u1, r⟩⟩
  · simp at hlen; omega
  · kernel16_ok
  · kernel16_ok

/-! ### the decoding loop `while (sp < ep) ch = extract(sp, ep)` over the translated step -/

/-- `while (sp < ep) { ch = extract(sp, ep); ... }`: the values the translated step returns, in order -/
def stepLoop (step : List Nat → Nat → Nat → M (Nat × Nat)) (mem : List Nat) : Nat → Nat → M (List Nat)
  | 0, _ => .error .fuel
  | fuel + 1, p =>
    if p < mem.length then do
      let (v, p') ← step mem p mem.length
      let rest ← stepLoop step mem fuel p'
      pure (v :: rest)
    else pure []

theorem stepLoop_eq (step : List Nat → Nat → Nat → M (Nat × Nat)) (dec : List Nat → List Nat) (hnil : dec [] = [])
    (hok : ∀ mem p, p < mem.length → isOk (step mem p mem.length) = true)
    (hsound : ∀ mem p v p', p < mem.length → step mem p mem.length = .ok (v, p') →
      p < p' ∧ p' ≤ mem.length ∧ dec (mem.drop p) = v :: dec (mem.drop p'))
    (mem : List Nat) : ∀ (n p : Nat), p ≤ mem.length → mem.length - p < n → stepLoop step mem n p = .ok (dec (mem.drop p)) := by
  intro n
  induction n with
  | zero => intro p _ h; omega
  | succ n ih =>
    intro p hp hn
    unfold stepLoop
    by_cases hlt : p < mem.length
    · simp only [hlt, ↓reduceIte]
      obtain ⟨⟨v, p'⟩, hs⟩ := (isOk_iff _).1 (hok mem p hlt)
      obtain ⟨h1, h2, h3⟩ := hsound mem p v p' hlt hs
      rw [hs]
      simp only [ok_bind]
      rw [ih p' h2 (by omega)]
      simp only [ok_bind, pure_eq_ok, h3]
    · simp only [hlt, ↓reduceIte, pure_eq_ok]
      have : mem.drop p = [] := List.drop_eq_nil_of_le (by omega)
      rw [this, hnil]

/-- iterating the translated `extract_utf8` from the start to the end of any source never reads outside the source
    and yields exactly the model's `decodeUtf8` -/
theorem utf8_loop_eq (mem : List Nat) : stepLoop Kernels.extract_utf8 mem (mem.length + 1) 0 = .ok (decodeUtf8 mem) := by
  have := stepLoop_eq Kernels.extract_utf8 decodeUtf8 decodeUtf8_nil extract_utf8_ok
    (fun mem p v p' hp h => extract_utf8_sound mem p v p' hp h) mem (mem.length + 1) 0 (by omega) (by omega)
  simpa using this

theorem utf16_loop_eq (mem : List Nat) : stepLoop Kernels.extract_utf16 mem (mem.length + 1) 0 = .ok (decodeUtf16 mem) := by
  have := stepLoop_eq Kernels.extract_utf16 decodeUtf16 decodeUtf16_nil extract_utf16_ok
    (fun mem p v p' hp h => extract_utf16_sound mem p v p' hp h) mem (mem.length + 1) 0 (by omega) (by omega)
  simpa using this

/-! ### small kernels: char_error, case folding, base64 size -/

theorem char_error_eq (ch : Nat) (h : ch < 2 ^ 31) : Kernels.char_error ch = .ok ((charError ch : Nat) : Int) := by
  unfold Kernels.char_error charError
  have hb : ch &&& 4290772991 ≤ ch := Nat.and_le_left
  split
  · simp only [pure_eq_ok]
    generalize ch &&& 4290772991 = x at hb
    apply congrArg
    omega
  · rfl

export StVerif.Cxx (toChar)

theorem cl_fast_lower_eq : ∀ b, b < 256 → Kernels.cl_fast_lower (toChar b) = .ok (toChar (Search.lower b)) := by
  decide +kernel

theorem cl_fast_upper_eq : ∀ b, b < 256 → Kernels.cl_fast_upper (toChar b) = .ok (toChar (Search.upper b)) := by
  decide +kernel

theorem b64_encode_size_eq (n : Nat) (h : n < 2 ^ 62) : Kernels.b64_encode_size n = .ok (Codec.b64EncodeSize n) := by
  unfold Kernels.b64_encode_size Codec.b64EncodeSize
  simp only [pure_eq_ok]
  apply congrArg
  omega

end StVerif.KernelBridge
