import StVerif.Lemmas.UtfSeg

namespace StVerif.Lemmas.Utf
open StVerif StVerif.Utf StVerif.Bits StVerif.Generated
open StVerif.Spec.Unicode

/-- how the value the loop body sees relates to the segment it stands for, per source encoding -/
def Rel (src : Enc) (ch : Nat) (sg : Seg) : Prop :=
  match src with
  | .utf8 => RelF ch sg
  | .utf16 => RelF ch sg ∧ (∀ v us, sg = .good v us → v ≤ 0x10FFFF)
  | .utf32 => sg = (if ch ≤ 0x10FFFF then .good ch [ch] else .bad ch)
  | .latin1 => sg = .good ch [ch] ∧ ch < 256

def unitBound : Enc → Nat
  | .utf8 => 256 | .latin1 => 256 | .utf16 => 65536 | .utf32 => 2^32

theorem segUtf16_le (xs : List Nat) : UnitsLt 65536 xs → ∀ sg ∈ segUtf16 xs, ∀ v us, sg = .good v us → v ≤ 0x10FFFF := by
  induction xs using segUtf16.induct with
  | case1 => intro _ sg hs; rw [segUtf16.eq_def] at hs; simp at hs
  | case2 u0 hh u1 r hl ih1 ih2 =>
    intro h sg hs v us he; simp only [UnitsLt_cons] at h
    rw [segUtf16.eq_def] at hs; simp only [hh, hl, if_true, List.mem_cons] at hs
    have a := (isHigh_iff u0).mp hh
    have b := (isLow_iff u1).mp hl
    rcases hs with hs | hs
    · rw [hs] at he; injection he with hv _; omega
    · exact ih2 h.2.2 sg hs v us he
  | case3 u0 hh u1 r hl ih1 =>
    intro h sg hs v us he; simp only [UnitsLt_cons] at h
    rw [segUtf16.eq_def] at hs; simp only [hh, if_neg hl, if_true, List.mem_cons] at hs
    rcases hs with hs | hs
    · rw [hs] at he; cases he
    · exact ih1 (UnitsLt_cons.mpr h.2) sg hs v us he
  | case4 u0 hh ih =>
    intro h sg hs v us he
    rw [segUtf16.eq_def] at hs; simp only [hh, if_true, List.mem_cons] at hs
    rcases hs with hs | hs
    · rw [hs] at he; cases he
    · rw [segUtf16.eq_def] at hs; simp at hs
  | case5 u0 hnh hl u1 r hh ih1 ih2 =>
    intro h sg hs v us he; simp only [UnitsLt_cons] at h
    rw [segUtf16.eq_def] at hs; simp only [if_neg hnh, hl, hh, if_true, List.mem_cons] at hs
    have a := (isLow_iff u0).mp hl
    have b := (isHigh_iff u1).mp hh
    rcases hs with hs | hs
    · rw [hs] at he; injection he with hv _; omega
    · exact ih2 h.2.2 sg hs v us he
  | case6 u0 hnh hl u1 r hh ih1 =>
    intro h sg hs v us he; simp only [UnitsLt_cons] at h
    rw [segUtf16.eq_def] at hs; simp only [if_neg hnh, hl, if_neg hh, if_true, List.mem_cons] at hs
    rcases hs with hs | hs
    · rw [hs] at he; cases he
    · exact ih1 (UnitsLt_cons.mpr h.2) sg hs v us he
  | case7 u0 hnh hl ih =>
    intro h sg hs v us he
    rw [segUtf16.eq_def] at hs; simp only [if_neg hnh, hl, if_true, List.mem_cons] at hs
    rcases hs with hs | hs
    · rw [hs] at he; cases he
    · rw [segUtf16.eq_def] at hs; simp at hs
  | case8 u0 rest hnh hnl ih =>
    intro h sg hs v us he; simp only [UnitsLt_cons] at h
    rw [segUtf16.eq_def] at hs; simp only [if_neg hnh, if_neg hnl, List.mem_cons] at hs
    rcases hs with hs | hs
    · rw [hs] at he; injection he with hv _; omega
    · exact ih h.2 sg hs v us he

theorem All2.imp_mem {α β : Type} {R S : α → β → Prop} : ∀ {as : List α} {bs : List β},
    All2 R as bs → (∀ a b, b ∈ bs → R a b → S a b) → All2 S as bs
  | _, _, .nil, _ => .nil
  | _, _, .cons hab t, f => .cons (f _ _ (by simp) hab) (All2.imp_mem t (fun a b hb => f a b (by simp [hb])))

/-- every source: the decoded sequence is pointwise related to the segmentation -/
theorem decode_rel (src : Enc) (xs : List Nat) (h : UnitsLt (unitBound src) xs) :
    All2 (Rel src) (decode src xs) (seg src xs) := by
  cases src with
  | utf8 => exact decode_rel_utf8 xs h
  | utf16 =>
    have l := segUtf16_le xs h
    exact All2.imp_mem (decode_rel_utf16 xs h) (fun a b hb hab => ⟨hab, l b hb⟩)
  | utf32 =>
    simp only [decode, seg, segUtf32]
    induction xs with
    | nil => exact All2.nil
    | cons a l ih => exact All2.cons rfl (ih (UnitsLt_cons.mp h).2)
  | latin1 =>
    simp only [decode, seg, segLatin1]
    induction xs with
    | nil => exact All2.nil
    | cons a l ih =>
      have := UnitsLt_cons.mp h
      exact All2.cons ⟨rfl, this.1⟩ (ih this.2)

end StVerif.Lemmas.Utf

namespace StVerif.Lemmas.Utf
open StVerif StVerif.Utf StVerif.Bits StVerif.Generated
open StVerif.Spec.Unicode

set_option linter.unusedSimpArgs false

theorem repl8 : replacement .utf8 = badcharSubstituteUtf8 := by decide
theorem repl16 : replacement .utf16 = [badcharSubstitute] := by decide
theorem repl32 : replacement .utf32 = [badcharSubstitute] := by decide
theorem replL1 : replacement .latin1 = [questionMark] := by decide
theorem sub8_len : badcharSubstituteUtf8.length = 3 := by decide

theorem latin1_enc (b : Nat) (h : b < 256) (hb : 0x80 ≤ b) :
    [0xC0 ||| ((b >>> 6) &&& 0x1F), 0x80 ||| (b &&& 0x3F)] = encUtf8 b := by
  unfold encUtf8
  rw [if_neg (by omega), if_pos (by omega)]
  simp only [and_1F, and_3F, Nat.shiftRight_eq_div_pow]
  rw [or_C0 _ (by omega), or_80 _ (by omega)]
  have e : b / 2 ^ 6 % 32 = b / 64 := by omega
  rw [e]

/-- one loop iteration agrees with the reference on the segment it stands for -/
theorem step_ref (src dst : Enc) (hne : src ≠ dst) (m : Mode) (subst : Bool) (ch : Nat) (sg : Seg) (hr : Rel src ch sg) :
    (∀ us, refStep src dst m subst sg = some us → stepCh src dst m subst ch = .units us ∧ measureCh src dst ch = us.length) ∧
    (refStep src dst m subst sg = none → ∃ k, stepCh src dst m subst ch = .error k) := by
  cases src <;> cases dst <;> first | exact absurd rfl hne | skip
  -- utf8 → utf16
  · cases sg with
    | good v us =>
      obtain ⟨rfl, hv⟩ := hr
      have ce := charError_of_lt hv
      by_cases hle : ch ≤ 0x10FFFF
      · simp [refStep, stepCh, measureCh, ce, hle, writeUtf16_eq ch hle, utf16Measure_eq ch hle]
      · have hgt : ch > 0x10FFFF := by omega
        cases m <;> simp [refStep, stepCh, measureCh, ce, hle, writeUtf16_none ch hgt, utf16Measure, hgt, repl16] <;> omega
    | bad u =>
      obtain ⟨he, hgt⟩ := hr
      cases m <;> simp [refStep, stepCh, measureCh, he, utf16Measure, hgt, repl16] <;> omega
  -- utf8 → utf32
  · cases sg with
    | good v us =>
      obtain ⟨rfl, hv⟩ := hr
      simp [refStep, stepCh, measureCh, charError_of_lt hv]
    | bad u =>
      obtain ⟨he, hgt⟩ := hr
      cases m <;> simp [refStep, stepCh, measureCh, he, repl32]
  -- utf8 → latin1
  · cases sg with
    | good v us =>
      obtain ⟨rfl, hv⟩ := hr
      by_cases hl : ch < 0x100
      · have hge : ¬ (0x100 ≤ ch) := by omega
        cases subst <;> simp [refStep, stepCh, measureCh, charError_of_lt hv, latin1Tail, hl, hge, questionMark]
      · have hge : 0x100 ≤ ch := by omega
        cases subst <;> simp [refStep, stepCh, measureCh, charError_of_lt hv, latin1Tail, hl, hge, questionMark]
    | bad u =>
      obtain ⟨he, hgt⟩ := hr
      cases m <;> cases subst <;> simp [refStep, stepCh, measureCh, he, latin1Tail, questionMark, replL1]
  -- utf16 → utf8
  · cases sg with
    | good v us =>
      obtain ⟨⟨rfl, hv⟩, hle⟩ := hr
      have hle' := hle ch us rfl
      simp [refStep, stepCh, measureCh, charError_of_lt hv, writeUtf8_eq ch hle', utf8Measure_eq ch hle']
    | bad u =>
      obtain ⟨⟨he, hgt⟩, _⟩ := hr
      have hm : utf8Measure ch = 3 := by
        unfold utf8Measure; rw [if_neg (by omega), if_neg (by omega), if_neg (by omega), if_neg (by omega)]; exact sub8_len
      cases m <;> simp [refStep, stepCh, measureCh, he, repl8, hm, sub8_len]
  -- utf16 → utf32
  · cases sg with
    | good v us =>
      obtain ⟨⟨rfl, hv⟩, _⟩ := hr
      simp [refStep, stepCh, measureCh, charError_of_lt hv]
    | bad u =>
      obtain ⟨⟨he, hgt⟩, _⟩ := hr
      cases m <;> simp [refStep, stepCh, measureCh, he, repl32]
  -- utf16 → latin1
  · cases sg with
    | good v us =>
      obtain ⟨⟨rfl, hv⟩, _⟩ := hr
      by_cases hl : ch < 0x100
      · have hge : ¬ (0x100 ≤ ch) := by omega
        cases subst <;> simp [refStep, stepCh, measureCh, charError_of_lt hv, latin1Tail, hl, hge, questionMark]
      · have hge : 0x100 ≤ ch := by omega
        cases subst <;> simp [refStep, stepCh, measureCh, charError_of_lt hv, latin1Tail, hl, hge, questionMark]
    | bad u =>
      obtain ⟨⟨he, hgt⟩, _⟩ := hr
      cases m <;> cases subst <;> simp [refStep, stepCh, measureCh, he, latin1Tail, questionMark, replL1]
  -- utf32 → utf8
  · simp only [Rel] at hr
    by_cases hle : ch ≤ 0x10FFFF
    · rw [if_pos hle] at hr; subst hr
      simp [refStep, stepCh, measureCh, writeUtf8_eq ch hle, utf8Measure_eq ch hle]
    · rw [if_neg hle] at hr; subst hr
      have hgt : ch > 0x10FFFF := by omega
      have hm : utf8Measure ch = 3 := by
        unfold utf8Measure; rw [if_neg (by omega), if_neg (by omega), if_neg (by omega), if_neg (by omega)]; exact sub8_len
      cases m <;> simp [refStep, stepCh, measureCh, writeUtf8_none ch hgt, repl8, hm, sub8_len]
  -- utf32 → utf16
  · simp only [Rel] at hr
    by_cases hle : ch ≤ 0x10FFFF
    · rw [if_pos hle] at hr; subst hr
      simp [refStep, stepCh, measureCh, writeUtf16_eq ch hle, utf16Measure_eq ch hle, hle]
    · rw [if_neg hle] at hr; subst hr
      have hgt : ch > 0x10FFFF := by omega
      cases m <;> simp [refStep, stepCh, measureCh, writeUtf16_none ch hgt, repl16, utf16Measure, hgt] <;> omega
  -- utf32 → latin1
  · simp only [Rel] at hr
    by_cases hle : ch ≤ 0x10FFFF
    · rw [if_pos hle] at hr; subst hr
      have hng : ¬ ch > 0x10FFFF := by omega
      by_cases hl : ch < 0x100
      · have hge : ¬ (0x100 ≤ ch) := by omega
        cases subst <;> cases m <;> simp [refStep, stepCh, measureCh, latin1Tail, hl, hge, questionMark, hng, hle]
      · have hge : 0x100 ≤ ch := by omega
        cases subst <;> cases m <;> simp [refStep, stepCh, measureCh, latin1Tail, hl, hge, questionMark, hng, hle]
    · rw [if_neg hle] at hr; subst hr
      have hgt : ch > 0x10FFFF := by omega
      have hge : 0x100 ≤ ch := by omega
      cases subst <;> cases m <;> simp [refStep, stepCh, measureCh, latin1Tail, questionMark, hgt, hge, replL1]
  -- latin1 → utf8
  · obtain ⟨rfl, hb⟩ := hr
    by_cases hh : 0x80 ≤ ch
    · have t : (ch &&& 0x80 ≠ 0) := by rw [hibit_iff' hb]; exact hh
      have l := latin1_enc ch hb hh
      have len : (encUtf8 ch).length = 2 := by rw [encUtf8_length]; rw [if_neg (by omega), if_pos (by omega)]
      simp only [refStep, stepCh, measureCh, if_pos t]
      refine ⟨fun us hus => ?_, fun hn => by simp at hn⟩
      simp at hus; subst hus
      exact ⟨by rw [l], len.symm⟩
    · have t : ¬ (ch &&& 0x80 ≠ 0) := by rw [hibit_iff' hb]; exact hh
      have l : encUtf8 ch = [ch] := by unfold encUtf8; rw [if_pos (by omega)]
      simp only [refStep, stepCh, measureCh, if_neg t]
      refine ⟨fun us hus => ?_, fun hn => by simp at hn⟩
      simp at hus; subst hus
      exact ⟨by rw [l], by rw [l]; rfl⟩
  -- latin1 → utf16
  · obtain ⟨rfl, hb⟩ := hr
    have : encUtf16 ch = [ch] := by unfold encUtf16; rw [if_pos (by omega)]
    have hle : ch ≤ 0x10FFFF := by omega
    simp [refStep, stepCh, measureCh, this, hle]
  -- latin1 → utf32
  · obtain ⟨rfl, hb⟩ := hr
    simp [refStep, stepCh, measureCh]

/-! ### whole loops: measure + fill against the reference steps -/

theorem measureCh_pos (src dst : Enc) (ch : Nat) : 0 < measureCh src dst ch := by
  cases src <;> cases dst <;> simp only [measureCh, utf8Measure, utf16Measure, sub8_len] <;> (repeat' split) <;> omega

theorem fill_ref (src dst : Enc) (hne : src ≠ dst) (m : Mode) (subst : Bool) :
    ∀ (chs : List Nat) (sgs : List Seg), All2 (Rel src) chs sgs →
      (∀ out, refSteps src dst m subst sgs = some out →
          fill (stepCh src dst m subst) chs = ⟨out, .done⟩ ∧ out.length = (chs.map (measureCh src dst)).sum) ∧
      (refSteps src dst m subst sgs = none →
          (∃ k, (fill (stepCh src dst m subst) chs).status = .error k) ∧
          (fill (stepCh src dst m subst) chs).out.length ≤ (chs.map (measureCh src dst)).sum) := by
  intro chs sgs h
  induction h with
  | nil => simp [refSteps, fill]
  | @cons ch sg chs sgs hr _ ih =>
    have st := step_ref src dst hne m subst ch sg hr
    simp only [refSteps, fill, List.map_cons, List.sum_cons]
    cases hs : refStep src dst m subst sg with
    | none =>
      obtain ⟨k, hk⟩ := st.2 hs
      simp [hk]
    | some us =>
      obtain ⟨hu, hm⟩ := st.1 us hs
      rw [hu]
      cases hrs : refSteps src dst m subst sgs with
      | none =>
        obtain ⟨⟨k, hk⟩, hl⟩ := ih.2 hrs
        simp [hk, hm]; omega
      | some r =>
        obtain ⟨hf, hl⟩ := ih.1 r hrs
        simp [hf, hm, hl]

theorem All2.nil_left {α β : Type} {R : α → β → Prop} {bs : List β} (h : All2 R [] bs) : bs = [] := by
  cases h; rfl

/-- **Refinement**: every conversion function returns exactly the reference transcoding of its
    input under the requested mode (for every input of fewer than 2^28 units). -/
theorem convert_eq_reference (src dst : Enc) (hne : src ≠ dst) (m : Mode) (subst : Bool) (xs : List Nat)
    (hu : UnitsLt (unitBound src) xs) (hlen : xs.length < hugeBufferSize) :
    convert src dst m subst (some xs) = reference src dst m subst xs := by
  have hrel := decode_rel src xs hu
  have hf : (∀ out, refSteps src dst m subst (seg src xs) = some out →
          fill (stepCh src dst m subst) (decode src xs) = ⟨out, .done⟩ ∧ out.length = Utf.measure src dst xs) ∧
      (refSteps src dst m subst (seg src xs) = none →
          (∃ k, (fill (stepCh src dst m subst) (decode src xs)).status = .error k) ∧
          (fill (stepCh src dst m subst) (decode src xs)).out.length ≤ Utf.measure src dst xs) :=
    fill_ref src dst hne m subst _ _ hrel
  unfold convert reference
  simp only [if_neg (by omega : ¬ xs.length ≥ hugeBufferSize)]
  by_cases hn : Utf.measure src dst xs = 0
  · have hd : decode src xs = [] := by
      cases hdx : decode src xs with
      | nil => rfl
      | cons a l =>
        unfold Utf.measure at hn
        rw [hdx] at hn; simp only [List.map_cons, List.sum_cons] at hn
        have := measureCh_pos src dst a; omega
    rw [hd] at hrel
    rw [All2.nil_left hrel, if_pos hn]; rfl
  · rw [if_neg hn]
    cases hrs : refSteps src dst m subst (seg src xs) with
    | some out =>
      obtain ⟨hfe, hl⟩ := hf.1 out hrs
      simp [hfe, hl]
    | none =>
      obtain ⟨⟨k, hk⟩, hl⟩ := hf.2 hrs
      rw [if_neg (by omega), hk]

end StVerif.Lemmas.Utf
