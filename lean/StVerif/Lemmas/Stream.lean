/-
  Helper lemmas for C16: the doubling loop, list facts about `overwrite`, evaluation of the machine's
  primitives, and — for every member function — what it returns on a pool that satisfies the invariant:
  the new pool satisfies it again and its abstraction is the spec step.
-/
import StVerif.Lemmas.StreamDefs

namespace StVerif.Stream
open StVerif StVerif.Generated StVerif.Spec

theorem cap_pos : 0 < stackStringSize := by decide

/-! ### the doubling loop -/

/-- with a positive capacity the loop ends within its fuel, with room for `need` -/
theorem growLoop_spec (need : Nat) : ∀ (fuel big : Nat), 0 < big → 0 < fuel → need < big + fuel →
    ∃ b, growLoop need fuel big = some b ∧ need ≤ b ∧ big < b := by
  intro fuel
  induction fuel with
  | zero => intro big hb hf h; omega
  | succ f ih =>
    intro big hb _ h
    simp only [growLoop]
    split
    · have := ih (big * 2) (by omega) (by omega) (by omega)
      obtain ⟨b, h1, h2, h3⟩ := this
      exact ⟨b, h1, h2, by omega⟩
    · exact ⟨big * 2, rfl, by omega, by omega⟩

/-- the result is the least `big * 2^(j+1)` that holds `need` (the capacity the C++ loop computes) -/
theorem growLoop_least (need : Nat) : ∀ (fuel big b : Nat), growLoop need fuel big = some b →
    ∃ j, b = big * 2 ^ (j + 1) ∧ need ≤ b ∧ (j = 0 ∨ big * 2 ^ j < need) := by
  intro fuel
  induction fuel with
  | zero => intro big b h; simp [growLoop] at h
  | succ f ih =>
    intro big b h
    simp only [growLoop] at h
    split at h
    · obtain ⟨j, h1, h2, h3⟩ := ih _ _ h
      refine ⟨j + 1, ?_, h2, Or.inr ?_⟩
      · rw [h1, Nat.pow_succ, Nat.pow_succ, Nat.pow_succ]; simp [Nat.mul_assoc, Nat.mul_comm]
      · rcases h3 with h3 | h3
        · subst h3; simp; omega
        · rw [Nat.pow_succ]
          have : big * 2 * 2 ^ j = big * (2 ^ j * 2) := by simp [Nat.mul_assoc, Nat.mul_comm]
          omega
    · injection h with h; subst h
      exact ⟨0, by simp, by omega, Or.inl rfl⟩

/-- from capacity 0 the loop never ends (every doubling of 0 is 0) -/
theorem growLoop_zero (need : Nat) (h : 0 < need) : ∀ fuel, growLoop need fuel 0 = none := by
  intro fuel; induction fuel with
  | zero => rfl
  | succ f ih => simp only [growLoop]; simp [h, ih]

/-! ### `overwrite` -/

theorem overwrite_length (blk us : List Nat) (at_ : Nat) (h : at_ + us.length ≤ blk.length) :
    (overwrite blk at_ us).length = blk.length := by
  simp [overwrite]; omega

theorem overwrite_zero_take (blk old : List Nat) (n : Nat) (hn : n ≤ old.length) :
    (overwrite blk 0 old).take n = old.take n := by
  simp [overwrite, List.take_append, Nat.sub_eq_zero_of_le hn]

theorem overwrite_take_end (blk us : List Nat) (at_ : Nat) (h : at_ ≤ blk.length) :
    (overwrite blk at_ us).take (at_ + us.length) = blk.take at_ ++ us := by
  simp [overwrite, List.take_append, Nat.min_eq_left h]
  apply List.take_of_length_le
  simp; omega

/-! ### evaluation of the primitives -/

def Pool.setO (p : Pool) (o : Nat) (s : Option Obj) : Pool := { p with objs := fun x => if x = o then s else p.objs x }
def Pool.setH (p : Pool) (k : Nat) (b : Option (List Nat)) : Pool := { p with heap := fun x => if x = k then b else p.heap x }
def Pool.bump (p : Pool) : Pool := { p with next := p.next + 1, allocs := p.allocs + 1 }

@[simp] theorem setO_objs (p : Pool) (o : Nat) (s : Option Obj) (x : Nat) : (p.setO o s).objs x = if x = o then s else p.objs x := rfl
@[simp] theorem setO_heap (p : Pool) (o : Nat) (s : Option Obj) : (p.setO o s).heap = p.heap := rfl
@[simp] theorem setO_next (p : Pool) (o : Nat) (s : Option Obj) : (p.setO o s).next = p.next := rfl
@[simp] theorem setO_failAt (p : Pool) (o : Nat) (s : Option Obj) : (p.setO o s).failAt = p.failAt := rfl
@[simp] theorem setO_allocs (p : Pool) (o : Nat) (s : Option Obj) : (p.setO o s).allocs = p.allocs := rfl
@[simp] theorem setH_heap (p : Pool) (k : Nat) (b : Option (List Nat)) (x : Nat) : (p.setH k b).heap x = if x = k then b else p.heap x := rfl
@[simp] theorem setH_objs (p : Pool) (k : Nat) (b : Option (List Nat)) : (p.setH k b).objs = p.objs := rfl
@[simp] theorem setH_next (p : Pool) (k : Nat) (b : Option (List Nat)) : (p.setH k b).next = p.next := rfl
@[simp] theorem setH_failAt (p : Pool) (k : Nat) (b : Option (List Nat)) : (p.setH k b).failAt = p.failAt := rfl
@[simp] theorem setH_allocs (p : Pool) (k : Nat) (b : Option (List Nat)) : (p.setH k b).allocs = p.allocs := rfl
@[simp] theorem bump_objs (p : Pool) : p.bump.objs = p.objs := rfl
@[simp] theorem bump_heap (p : Pool) : p.bump.heap = p.heap := rfl
@[simp] theorem bump_next (p : Pool) : p.bump.next = p.next + 1 := rfl
@[simp] theorem bump_failAt (p : Pool) : p.bump.failAt = p.failAt := rfl
@[simp] theorem bump_allocs (p : Pool) : p.bump.allocs = p.allocs + 1 := rfl

@[simp] theorem bind_apply {α β : Type} (x : M α) (f : α → M β) (p : Pool) :
    (x >>= f) p = match x p with | .ok a p' => f a p' | .fault e p' => .fault e p' | .throw e p' => .throw e p' := rfl
@[simp] theorem pure_apply {α : Type} (a : α) (p : Pool) : (pure a : M α) p = .ok a p := rfl

theorem getObj_eq {p : Pool} {o : Nat} {s : Obj} (h : p.objs o = some s) : getObj o p = .ok s p := by
  simp [getObj, h]
theorem requireDead_eq {p : Pool} {o : Nat} (h : p.objs o = none) : requireDead o p = .ok () p := by
  simp [requireDead, h]
theorem setObj_eq (p : Pool) (o : Nat) (s : Obj) : setObj o s p = .ok () (p.setO o (some s)) := rfl
theorem dropObj_eq (p : Pool) (o : Nat) : dropObj o p = .ok () (p.setO o none) := rfl
theorem newBlock_eq {p : Pool} (n : Nat) (h : p.failAt ≠ some (p.allocs + 1)) :
    newBlock n p = .ok (.heap p.next) (p.setH p.next (some (List.replicate n 0xCD))).bump := by
  simp [newBlock, h, Pool.setH, Pool.bump]
theorem newBlock_fail {p : Pool} (n : Nat) (h : p.failAt = some (p.allocs + 1)) :
    newBlock n p = .throw .badAlloc { p with allocs := p.allocs + 1 } := by
  simp [newBlock, h]
theorem deleteBlock_eq {p : Pool} {k : Nat} {blk : List Nat} (h : p.heap k = some blk) :
    deleteBlock (.heap k) p = .ok () (p.setH k none) := by
  simp [deleteBlock, h, Pool.setH]
theorem readUnits_stack {p : Pool} {o : Nat} {s : Obj} (n : Nat) (h : p.objs o = some s) (hn : n ≤ s.stack.length) :
    readUnits (.stack o) n p = .ok (s.stack.take n) p := by
  simp [readUnits, h, hn]
theorem readUnits_heap {p : Pool} {k : Nat} {blk : List Nat} (n : Nat) (h : p.heap k = some blk) (hn : n ≤ blk.length) :
    readUnits (.heap k) n p = .ok (blk.take n) p := by
  simp [readUnits, h, hn]
theorem writeUnits_stack {p : Pool} {o : Nat} {s : Obj} (at_ : Nat) (us : List Nat) (h : p.objs o = some s)
    (hn : at_ + us.length ≤ s.stack.length) :
    writeUnits (.stack o) at_ us p = .ok () (p.setO o (some { s with stack := overwrite s.stack at_ us })) := by
  simp [writeUnits, h, hn, Pool.setO]
theorem writeUnits_heap {p : Pool} {k : Nat} {blk : List Nat} (at_ : Nat) (us : List Nat) (h : p.heap k = some blk)
    (hn : at_ + us.length ≤ blk.length) :
    writeUnits (.heap k) at_ us p = .ok () (p.setH k (some (overwrite blk at_ us))) := by
  simp [writeUnits, h, hn, Pool.setH]

/-! ### storage mode of a live stream under the invariant -/

inductive ModeOf (p : Pool) (o : Nat) (s : Obj) : Prop where
  | stack (ha : s.alloc = stackStringSize) (hc : s.chars = .stack o)
  | heap (k : Nat) (blk : List Nat) (ha : stackStringSize < s.alloc) (hc : s.chars = .heap k) (hk : p.heap k = some blk) (hl : blk.length = s.alloc)

theorem Inv.mode {p : Pool} (hi : Inv p) {o : Nat} {s : Obj} (ho : p.objs o = some s) : ModeOf p o s := by
  obtain ⟨_, _, h | ⟨h, k, blk, hc, hk, hl⟩⟩ := hi.obj o s ho
  · exact .stack h.1 h.2
  · exact .heap k blk h hc hk hl

theorem Inv.stackLen {p : Pool} (hi : Inv p) {o : Nat} {s : Obj} (ho : p.objs o = some s) : s.stack.length = stackStringSize :=
  (hi.obj o s ho).1
theorem Inv.sizeLe {p : Pool} (hi : Inv p) {o : Nat} {s : Obj} (ho : p.objs o = some s) : s.size ≤ s.alloc :=
  (hi.obj o s ho).2.1

end StVerif.Stream
