/-
  Bridge for the translated conversion loops, continued (template: KernelLoops.lean):
  the UTF-16 -> UTF-32 pair (built on `extract_utf16`) and the four Latin-1 sources
  (`const char *` read one byte at a time with `rd8`; the model's decoder for Latin-1 is the identity).
-/
import StVerif.Lemmas.KernelLoops
open StVerif StVerif.Cxx StVerif.Generated StVerif.Utf

namespace StVerif.KernelBridge

/-! ### UTF-16 -> UTF-32 -/

theorem utf32_measure_from_utf16_loop_eq (mem : List Nat) :
    ∀ fuel acc p, p ≤ mem.length → mem.length - p < fuel → acc + (mem.length - p) < 2 ^ 64 →
      Kernels.utf32_measure_from_utf16_loop1 mem 0 mem.length mem.length false fuel acc p
        = .ok (acc + ((decodeUtf16 (mem.drop p)).map (measureCh .utf16 .utf32)).sum) := by
  intro fuel
  induction fuel with
  | zero => intro acc p _ h; omega
  | succ n ih =>
    intro acc p hp hf hb
    unfold Kernels.utf32_measure_from_utf16_loop1
    by_cases hlt : p < mem.length
    · simp only [hlt, ↓reduceIte]
      obtain ⟨⟨v, p'⟩, hs⟩ := (isOk_iff _).1 (extract_utf16_ok mem p hlt)
      obtain ⟨h1, h2, h3⟩ := extract_utf16_sound mem p v p' hlt hs
      simp only [hs, ok_bind]
      rw [Nat.mod_eq_of_lt (by omega), ih _ _ h2 (by omega) (by omega), h3]
      simp [measureCh, Nat.add_assoc]
    · have hd : mem.drop p = [] := List.drop_eq_nil_of_le (by omega)
      simp [hlt, hd, decodeUtf16_nil]

/-- the translated sizing pass UTF-16 -> UTF-32 is the model's `measure` -/
theorem utf32_measure_from_utf16_eq (mem : List Nat) (fuel : Nat) (hf : mem.length < fuel) (hl : mem.length < 2 ^ 64) :
    Kernels.utf32_measure_from_utf16 mem fuel 0 false mem.length = .ok (Utf.measure .utf16 .utf32 mem) := by
  unfold Kernels.utf32_measure_from_utf16
  simp only [↓reduceIte, Nat.zero_add]
  rw [utf32_measure_from_utf16_loop_eq mem fuel 0 0 (by omega) (by omega) (by omega)]
  simp only [Utf.measure, decode, Nat.zero_add, List.drop_zero]

theorem utf32_convert_from_utf16_loop_eq (mem : List Nat) (m : Mode) (subst : Bool) (hu : ∀ u ∈ mem, u < 65536) :
    ∀ fuel out p, p ≤ mem.length → mem.length - p < fuel →
      Kernels.utf32_convert_from_utf16_loop1 mem 0 mem.length (modeCode m) mem.length fuel p out
        = (fillResult (fill (stepCh .utf16 .utf32 m subst) (decodeUtf16 (mem.drop p)))).map (fun r => (r.1, out ++ r.2)) := by
  intro fuel
  induction fuel with
  | zero => intro out p _ h; omega
  | succ n ih =>
    intro out p hp hf
    unfold Kernels.utf32_convert_from_utf16_loop1
    by_cases hlt : p < mem.length
    · simp only [hlt, ↓reduceIte]
      obtain ⟨⟨v, p'⟩, hs⟩ := (isOk_iff _).1 (extract_utf16_ok mem p hlt)
      obtain ⟨h1, h2, h3⟩ := extract_utf16_sound mem p v p' hlt hs
      have hv := extract_utf16_lt mem hu p v p' hlt hs
      simp only [hs, ok_bind, h3, fill, stepCh, char_error_eq v (by omega)]
      have ih' := fun o => ih o p' h2 (by omega)
      simp only [ih']
      generalize fill (stepCh Enc.utf16 Enc.utf32 m subst) (decodeUtf16 (List.drop p' mem)) = F
      obtain ⟨o, st⟩ := F
      by_cases he : charError v = 0 <;> cases m <;> cases st <;>
        simp [he, modeCode, fillResult, Except.map, badcharSubstitute, List.append_assoc]
    · have hd : mem.drop p = [] := List.drop_eq_nil_of_le (by omega)
      simp [hlt, hd, decodeUtf16_nil, fill, fillResult, Except.map]

/-- the translated filling pass UTF-16 -> UTF-32 is the model's `fill` over the model's decoder -/
theorem utf32_convert_from_utf16_eq (mem : List Nat) (m : Mode) (subst : Bool) (hu : ∀ u ∈ mem, u < 65536)
    (fuel : Nat) (hf : mem.length < fuel) :
    Kernels.utf32_convert_from_utf16 mem fuel 0 mem.length (modeCode m)
      = fillResult (fill (stepCh .utf16 .utf32 m subst) (decode .utf16 mem)) := by
  unfold Kernels.utf32_convert_from_utf16
  simp only [Nat.zero_add]
  rw [utf32_convert_from_utf16_loop_eq mem m subst hu fuel [] 0 (by omega) (by omega)]
  simp only [List.drop_zero, decode]
  exact map_fillResult_nil _

/-! ### Latin-1 sources -/

/-- a read at a position inside the source succeeds and splits the remaining source there -/
theorem misc_rd_lt (mem : List Nat) (p : Nat) (hp : p < mem.length) :
    ∃ t, rd mem p = .ok t ∧ mem.drop p = t :: mem.drop (p + 1) := by
  refine ⟨mem[p], ?_, ?_⟩
  · simp [rd, List.getElem?_eq_getElem hp]
  · exact List.drop_eq_getElem_cons hp

theorem utf8_measure_from_latin_1_loop_eq (mem : List Nat) :
    ∀ fuel acc p, p ≤ mem.length → mem.length - p < fuel → acc + 2 * (mem.length - p) < 2 ^ 64 →
      Kernels.utf8_measure_from_latin_1_loop1 mem 0 mem.length mem.length false fuel acc p
        = .ok (acc + ((mem.drop p).map (measureCh .latin1 .utf8)).sum) := by
  intro fuel
  induction fuel with
  | zero => intro acc p _ h; omega
  | succ n ih =>
    intro acc p hp hf hb
    unfold Kernels.utf8_measure_from_latin_1_loop1
    by_cases hlt : p < mem.length
    · simp only [hlt, ↓reduceIte]
      obtain ⟨t, hr, hd⟩ := misc_rd_lt mem p hlt
      simp only [rd8, hr, ok_bind, hd]
      by_cases ht : t &&& 128 = 0
      · simp only [ht, ne_eq, not_true_eq_false, ↓reduceIte]
        rw [Nat.mod_eq_of_lt (by omega), ih _ _ (by omega) (by omega) (by omega)]
        simp [measureCh, ht, Nat.add_assoc]
      · simp only [ht, ne_eq, not_false_eq_true, ↓reduceIte]
        rw [Nat.mod_eq_of_lt (by omega), ih _ _ (by omega) (by omega) (by omega)]
        simp [measureCh, ht, Nat.add_assoc]
    · have hd : mem.drop p = [] := List.drop_eq_nil_of_le (by omega)
      simp [hlt, hd]

/-- the translated sizing pass Latin-1 -> UTF-8 is the model's `measure` -/
theorem utf8_measure_from_latin_1_eq (mem : List Nat) (fuel : Nat) (hf : mem.length < fuel) (hl : 2 * mem.length < 2 ^ 64) :
    Kernels.utf8_measure_from_latin_1 mem fuel 0 false mem.length = .ok (Utf.measure .latin1 .utf8 mem) := by
  unfold Kernels.utf8_measure_from_latin_1
  simp only [↓reduceIte, Nat.zero_add]
  rw [utf8_measure_from_latin_1_loop_eq mem fuel 0 0 (by omega) (by omega) (by omega)]
  simp only [Utf.measure, decode, Nat.zero_add, List.drop_zero]

theorem utf8_convert_from_latin_1_loop_eq (mem : List Nat) (m : Mode) (subst : Bool) :
    ∀ fuel out p, p ≤ mem.length → mem.length - p < fuel →
      Kernels.utf8_convert_from_latin_1_loop1 mem 0 mem.length mem.length fuel p out
        = .ok (out ++ (fill (stepCh .latin1 .utf8 m subst) (mem.drop p)).out) := by
  intro fuel
  induction fuel with
  | zero => intro out p _ h; omega
  | succ n ih =>
    intro out p hp hf
    unfold Kernels.utf8_convert_from_latin_1_loop1
    by_cases hlt : p < mem.length
    · simp only [hlt, ↓reduceIte]
      obtain ⟨t, hr, hd⟩ := misc_rd_lt mem p hlt
      simp only [rd8, hr, ok_bind, hd]
      by_cases ht : t &&& 128 = 0
      · simp only [ht, ne_eq, not_true_eq_false, ↓reduceIte]
        rw [ih _ _ (by omega) (by omega)]
        simp [fill, stepCh, ht, List.append_assoc]
      · simp only [ht, ne_eq, not_false_eq_true, ↓reduceIte]
        rw [ih _ _ (by omega) (by omega)]
        simp [fill, stepCh, ht, List.append_assoc]
    · have hd : mem.drop p = [] := List.drop_eq_nil_of_le (by omega)
      simp [hlt, hd, fill]

/-- the translated filling pass Latin-1 -> UTF-8 stores exactly the units of the model's `fill` (which never fails
    for a Latin-1 source, see `fill_latin1_done`) -/
theorem utf8_convert_from_latin_1_eq (mem : List Nat) (m : Mode) (subst : Bool) (fuel : Nat) (hf : mem.length < fuel) :
    Kernels.utf8_convert_from_latin_1 mem fuel 0 mem.length
      = .ok (fill (stepCh .latin1 .utf8 m subst) (decode .latin1 mem)).out := by
  unfold Kernels.utf8_convert_from_latin_1
  simp only [Nat.zero_add]
  rw [utf8_convert_from_latin_1_loop_eq mem m subst fuel [] 0 (by omega) (by omega)]
  simp [decode]

theorem utf16_convert_from_latin_1_loop_eq (mem : List Nat) (m : Mode) (subst : Bool) :
    ∀ fuel out p, p ≤ mem.length → mem.length - p < fuel →
      Kernels.utf16_convert_from_latin_1_loop1 mem 0 mem.length mem.length fuel p out
        = .ok (out ++ (fill (stepCh .latin1 .utf16 m subst) (mem.drop p)).out) := by
  intro fuel
  induction fuel with
  | zero => intro out p _ h; omega
  | succ n ih =>
    intro out p hp hf
    unfold Kernels.utf16_convert_from_latin_1_loop1
    by_cases hlt : p < mem.length
    · simp only [hlt, ↓reduceIte]
      obtain ⟨t, hr, hd⟩ := misc_rd_lt mem p hlt
      simp only [rd8, hr, ok_bind, hd]
      rw [ih _ _ (by omega) (by omega)]
      simp [fill, stepCh, List.append_assoc]
    · have hd : mem.drop p = [] := List.drop_eq_nil_of_le (by omega)
      simp [hlt, hd, fill]

/-- the translated filling pass Latin-1 -> UTF-16 stores exactly the units of the model's `fill` -/
theorem utf16_convert_from_latin_1_eq (mem : List Nat) (m : Mode) (subst : Bool) (fuel : Nat) (hf : mem.length < fuel) :
    Kernels.utf16_convert_from_latin_1 mem fuel 0 mem.length
      = .ok (fill (stepCh .latin1 .utf16 m subst) (decode .latin1 mem)).out := by
  unfold Kernels.utf16_convert_from_latin_1
  simp only [Nat.zero_add]
  rw [utf16_convert_from_latin_1_loop_eq mem m subst fuel [] 0 (by omega) (by omega)]
  simp [decode]

theorem utf32_convert_from_latin_1_loop_eq (mem : List Nat) (m : Mode) (subst : Bool) :
    ∀ fuel out p, p ≤ mem.length → mem.length - p < fuel →
      Kernels.utf32_convert_from_latin_1_loop1 mem 0 mem.length mem.length fuel p out
        = .ok (out ++ (fill (stepCh .latin1 .utf32 m subst) (mem.drop p)).out) := by
  intro fuel
  induction fuel with
  | zero => intro out p _ h; omega
  | succ n ih =>
    intro out p hp hf
    unfold Kernels.utf32_convert_from_latin_1_loop1
    by_cases hlt : p < mem.length
    · simp only [hlt, ↓reduceIte]
      obtain ⟨t, hr, hd⟩ := misc_rd_lt mem p hlt
      simp only [rd8, hr, ok_bind, hd]
      rw [ih _ _ (by omega) (by omega)]
      simp [fill, stepCh, List.append_assoc]
    · have hd : mem.drop p = [] := List.drop_eq_nil_of_le (by omega)
      simp [hlt, hd, fill]

/-- the translated filling pass Latin-1 -> UTF-32 stores exactly the units of the model's `fill` -/
theorem utf32_convert_from_latin_1_eq (mem : List Nat) (m : Mode) (subst : Bool) (fuel : Nat) (hf : mem.length < fuel) :
    Kernels.utf32_convert_from_latin_1 mem fuel 0 mem.length
      = .ok (fill (stepCh .latin1 .utf32 m subst) (decode .latin1 mem)).out := by
  unfold Kernels.utf32_convert_from_latin_1
  simp only [Nat.zero_add]
  rw [utf32_convert_from_latin_1_loop_eq mem m subst fuel [] 0 (by omega) (by omega)]
  simp [decode]

/-- for a Latin-1 source the model's fill pass always runs to the end (the C++ functions are `void`: there is no
    error code to compare), so `.out` above is the whole result -/
theorem fill_latin1_done (dst : Enc) (m : Mode) (subst : Bool) (xs : List Nat) :
    (fill (stepCh .latin1 dst m subst) xs).status = .done := by
  induction xs with
  | nil => simp [fill]
  | cons x r ih =>
    cases dst
    case utf8 => by_cases hx : x &&& 128 = 0 <;> simp [fill, stepCh, hx, ih]
    all_goals simp [fill, stepCh, ih]

end StVerif.KernelBridge
