/-
  Helper lemmas for C10: every step of the parser model reads inside the string, moves forward,
  and ends in one of the permitted outcomes.
-/
import StVerif.Model.FmtRender

namespace StVerif.Lemmas.Fmt
open StVerif StVerif.Fmt

/-! ### the reader -/

theorem rd_of_lt {fmt : List Nat} {i : Nat} (h : i < fmt.length) : rd fmt i = some (fmt.getD i 0) := by
  simp [rd, h]

theorem rd_at_end (fmt : List Nat) : rd fmt fmt.length = some 0 := by
  simp [rd]

theorem rd_isSome_of_le {fmt : List Nat} {i : Nat} (h : i ≤ fmt.length) : ∃ c, rd fmt i = some c := by
  by_cases hl : i < fmt.length
  · exact ⟨_, rd_of_lt hl⟩
  · have : i = fmt.length := by omega
    subst this; exact ⟨0, rd_at_end fmt⟩

/-- a non-zero byte is strictly inside the string -/
theorem lt_of_rd_ne_zero {fmt : List Nat} {i c : Nat} (h : rd fmt i = some c) (hc : c ≠ 0) : i < fmt.length := by
  unfold rd at h
  by_cases hl : i < fmt.length
  · exact hl
  · simp only [hl, if_false] at h
    by_cases he : i = fmt.length
    · simp only [he, if_true] at h; injection h with h; exact absurd h.symm hc
    · simp [he] at h

theorem le_of_rd_some {fmt : List Nat} {i c : Nat} (h : rd fmt i = some c) : i ≤ fmt.length := by
  unfold rd at h
  by_cases hl : i < fmt.length
  · omega
  · simp only [hl, if_false] at h
    by_cases he : i = fmt.length
    · omega
    · simp [he] at h

/-! ### strtol -/

theorem strtolAt_le {fmt : List Nat} {pos : Nat} (h : pos ≤ fmt.length) : (strtolAt fmt pos).2 ≤ fmt.length := by
  unfold strtolAt
  have := strtol10_le (fmt.drop pos)
  simp only [List.length_drop] at this
  simp only
  omega

theorem strtolAt_ge (fmt : List Nat) (pos : Nat) : pos ≤ (strtolAt fmt pos).2 := by
  unfold strtolAt; simp

theorem digitsVal_pos (c : Nat) (rest : List Nat) (acc : Nat) (h : isDigit c = true) : 1 ≤ (digitsVal (c :: rest) acc).2 := by
  simp [digitsVal, h]

/-- a numeral that starts with one of '1'…'9' consumes at least that digit -/
theorem strtol10_pos_of_digit (c : Nat) (rest : List Nat) (h : 49 ≤ c ∧ c ≤ 57) : 1 ≤ (strtol10 (c :: rest)).2 := by
  have hd : isDigit c = true := by simp [isDigit]; omega
  have hs : isSpace c = false := by simp [isSpace]; omega
  have h45 : c ≠ 45 := by omega
  have h43 : c ≠ 43 := by omega
  have hws : skipSpace (c :: rest) = 0 := by simp [skipSpace, hs]
  have hsg : signLen (c :: rest) = 0 := by
    unfold signLen
    split
    · rename_i heq; injection heq with h1 _; exact absurd h1 h45
    · rename_i heq; injection heq with h1 _; exact absurd h1 h43
    · rfl
  unfold strtol10
  simp only [hws, List.drop_zero, hsg]
  have := digitsVal_pos c rest 0 hd
  split
  · omega
  · simp only; omega

theorem strtolAt_gt_of_digit {fmt : List Nat} {p c : Nat} (hr : rd fmt p = some c) (h : 49 ≤ c ∧ c ≤ 57) :
    p + 1 ≤ (strtolAt fmt p).2 := by
  have hlt : p < fmt.length := lt_of_rd_ne_zero hr (by omega)
  have hc : fmt.getD p 0 = c := by rw [rd_of_lt hlt] at hr; injection hr
  have hdrop : fmt.drop p = c :: fmt.drop (p + 1) := by
    rw [List.drop_eq_getElem_cons hlt]
    congr 1
    rw [← hc]; simp [List.getD_eq_getElem?_getD, hlt]
  unfold strtolAt
  simp only [hdrop]
  have := strtol10_pos_of_digit c (fmt.drop (p + 1)) h
  omega

/-- case split of a propositional `if` (keeps both hypotheses in the context) -/
theorem ite_prop {c : Prop} [Decidable c] {a b : Prop} (h1 : c → a) (h2 : ¬c → b) : if c then a else b := by
  by_cases h : c
  · simp only [h, if_true]; exact h1 h
  · simp only [h, if_false]; exact h2 h

/-! ### parse_format -/

/-- what one iteration of the specifier loop may do when entered inside the string -/
def PStepOk (fmt : List Nat) (pos : Nat) : Outcome PStep → Prop
  | .ok (.cont _ np) => pos < np ∧ np < fmt.length
  | .ok (.done _ np) => pos < np ∧ np ≤ fmt.length
  | .throw e => e = .badFormat
  | _ => False

theorem parseStep_ok (fmt : List Nat) (pos : Nat) (spec : FormatSpec) (h : pos < fmt.length) :
    PStepOk fmt pos (parseStep fmt pos spec) := by
  obtain ⟨c, hc⟩ := rd_isSome_of_le (show pos + 1 ≤ fmt.length by omega)
  unfold parseStep
  simp only [hc]
  by_cases h0 : c = 0
  · simp [h0, PStepOk]
  have hlt : pos + 1 < fmt.length := lt_of_rd_ne_zero hc h0
  obtain ⟨c1, hc1⟩ := rd_isSome_of_le (show pos + 1 + 1 ≤ fmt.length by omega)
  have hA : 49 ≤ c ∧ c ≤ 57 → pos + 1 + 1 ≤ (strtolAt fmt (pos + 1)).2 := strtolAt_gt_of_digit hc
  have hB : (strtolAt fmt (pos + 1)).2 ≤ fmt.length := strtolAt_le (by omega)
  have hC : (strtolAt fmt (pos + 1 + 1)).2 ≤ fmt.length := strtolAt_le (by omega)
  have hD : pos + 1 + 1 ≤ (strtolAt fmt (pos + 1 + 1)).2 := strtolAt_ge _ _
  have hE : c1 ≠ 0 → pos + 1 + 1 < fmt.length := fun hne => lt_of_rd_ne_zero hc1 hne
  simp only [hc1, h0, if_false, apply_ite (PStepOk fmt pos)]
  repeat' (apply ite_prop <;> intro _)
  all_goals first
    | (simp only [PStepOk]; omega)
    | (simp only [PStepOk]; done)
    | (simp only [PStepOk]; have := hA (by assumption); omega)
    | (simp only [PStepOk]; have := hE (by assumption); omega)

/-- `parse_format` entered inside the string: a spec and a position further on (at most the
    NUL), or `bad_format` -/
def PLoopOk (fmt : List Nat) (pos : Nat) : Outcome (FormatSpec × Nat) → Prop
  | .ok (_, np) => pos < np ∧ np ≤ fmt.length
  | .throw e => e = .badFormat
  | _ => False

theorem parseLoop_ok (fmt : List Nat) (pos : Nat) (spec : FormatSpec) (h : pos < fmt.length) :
    PLoopOk fmt pos (parseLoop fmt pos spec) := by
  fun_induction parseLoop fmt pos spec with
  | case1 pos spec s np hs =>
    have := parseStep_ok fmt pos spec h; rw [hs] at this; simp only [PStepOk] at this
    simp only [PLoopOk]; omega
  | case2 pos spec s np hs hg ih =>
    have := parseStep_ok fmt pos spec h; rw [hs] at this; simp only [PStepOk] at this
    have := ih this.2
    revert this
    cases parseLoop fmt np s with
    | ok r => obtain ⟨s', np'⟩ := r; simp only [PLoopOk]; omega
    | throw e => simp only [PLoopOk]; exact id
    | _ => simp [PLoopOk]
  | case3 pos spec s np hs hg =>
    have := parseStep_ok fmt pos spec h; rw [hs] at this; simp only [PStepOk] at this
    exact absurd ⟨this.1, Nat.le_of_lt this.2⟩ hg
  | case4 pos spec e hs =>
    have := parseStep_ok fmt pos spec h; rw [hs] at this; simpa [PStepOk, PLoopOk] using this
  | case5 pos spec w hs => have := parseStep_ok fmt pos spec h; rw [hs] at this; simp [PStepOk] at this
  | case6 pos spec w hs => have := parseStep_ok fmt pos spec h; rw [hs] at this; simp [PStepOk] at this
  | case7 pos spec hs => have := parseStep_ok fmt pos spec h; rw [hs] at this; simp [PStepOk] at this
  | case8 pos spec hs => have := parseStep_ok fmt pos spec h; rw [hs] at this; simp [PStepOk] at this

/-! ### fetch_prefix / next_format -/

def FStepOk (fmt : List Nat) (s : FState) : Outcome FStep → Prop
  | .ok (.cont s') => s.next < s'.next ∧ s'.next ≤ fmt.length
  | .ok (.stop s') => s' = s ∧ ∃ c, rd fmt s.next = some c ∧ (c = 0 ∨ c = 123)
  | _ => False

theorem fetchStep_ok (fmt : List Nat) (s : FState) (h : s.next ≤ fmt.length) : FStepOk fmt s (fetchStep fmt s) := by
  obtain ⟨c, hc⟩ := rd_isSome_of_le h
  unfold fetchStep
  simp only [hc]
  by_cases h0 : c = 0
  · simp only [h0, if_true, FStepOk]; exact ⟨trivial, 0, h0 ▸ hc, Or.inl rfl⟩
  have hlt : s.next < fmt.length := lt_of_rd_ne_zero hc h0
  obtain ⟨c1, hc1⟩ := rd_isSome_of_le (show s.next + 1 ≤ fmt.length by omega)
  have hE : c1 ≠ 0 → s.next + 1 < fmt.length := fun hne => lt_of_rd_ne_zero hc1 hne
  simp only [hc1, h0, if_false, apply_ite (FStepOk fmt s)]
  repeat' (apply ite_prop <;> intro _)
  all_goals first
    | (simp only [FStepOk]; omega)
    | (simp only [FStepOk]; have := hE (by omega); omega)
    | (simp only [FStepOk]; refine ⟨trivial, c, hc, Or.inr ?_⟩; assumption)

def FLoopOk (fmt : List Nat) (s : FState) : Outcome FState → Prop
  | .ok s' => s.next ≤ s'.next ∧ s'.next ≤ fmt.length ∧ ∃ c, rd fmt s'.next = some c ∧ (c = 0 ∨ c = 123)
  | _ => False

theorem fetchLoop_ok (fmt : List Nat) (s : FState) (h : s.next ≤ fmt.length) : FLoopOk fmt s (fetchLoop fmt s) := by
  fun_induction fetchLoop fmt s with
  | case1 s s' hs =>
    have := fetchStep_ok fmt s h; rw [hs] at this; simp only [FStepOk] at this
    obtain ⟨rfl, c, hc, h01⟩ := this
    exact ⟨Nat.le_refl _, h, c, hc, h01⟩
  | case2 s s' hs hg ih =>
    have := fetchStep_ok fmt s h; rw [hs] at this; simp only [FStepOk] at this
    have := ih this.2
    revert this
    cases fetchLoop fmt s' with
    | ok r => simp only [FLoopOk]; intro ⟨h1, h2, h3⟩; exact ⟨by omega, h2, h3⟩
    | _ => simp [FLoopOk]
  | case3 s s' hs hg =>
    have := fetchStep_ok fmt s h; rw [hs] at this; simp only [FStepOk] at this
    exact absurd this hg
  | case4 s e hs => have := fetchStep_ok fmt s h; rw [hs] at this; simp [FStepOk] at this
  | case5 s w hs => have := fetchStep_ok fmt s h; rw [hs] at this; simp [FStepOk] at this
  | case6 s w hs => have := fetchStep_ok fmt s h; rw [hs] at this; simp [FStepOk] at this
  | case7 s hs => have := fetchStep_ok fmt s h; rw [hs] at this; simp [FStepOk] at this
  | case8 s hs => have := fetchStep_ok fmt s h; rw [hs] at this; simp [FStepOk] at this

/-! ### outcomes through `bind` -/

/-- the outcome is a value satisfying `P`, an exception satisfying `E`, or an assertion satisfying
    `A` — never `ub`, `oob`, `stuck` -/
def Sat (P : α → Prop) (E : Exc → Prop) (A : String → Prop) : Outcome α → Prop
  | .ok a => P a
  | .throw e => E e
  | .assertFail w => A w
  | _ => False

theorem Sat.bind {P : α → Prop} {Q : β → Prop} {E : Exc → Prop} {A : String → Prop} {x : Outcome α} {f : α → Outcome β}
    (hx : Sat P E A x) (hf : ∀ a, P a → Sat Q E A (f a)) : Sat Q E A (x.bind f) := by
  cases x with
  | ok a => exact hf a hx
  | throw e => exact hx
  | assertFail w => exact hx
  | ub w => exact hx
  | oob => exact hx
  | stuck => exact hx

theorem Sat.mono {P P' : α → Prop} {E E' : Exc → Prop} {A A' : String → Prop} {x : Outcome α}
    (hx : Sat P E A x) (hP : ∀ a, P a → P' a) (hE : ∀ e, E e → E' e) (hA : ∀ w, A w → A' w) : Sat P' E' A' x := by
  cases x with
  | ok a => exact hP a hx
  | throw e => exact hE e hx
  | assertFail w => exact hA w hx
  | ub w => exact hx
  | oob => exact hx
  | stuck => exact hx

theorem Sat.ne_oob {P : α → Prop} {E : Exc → Prop} {A : String → Prop} {x : Outcome α} (hx : Sat P E A x) : x ≠ .oob := by
  intro h; rw [h] at hx; exact hx

theorem Sat.ne_stuck {P : α → Prop} {E : Exc → Prop} {A : String → Prop} {x : Outcome α} (hx : Sat P E A x) : x ≠ .stuck := by
  intro h; rw [h] at hx; exact hx

theorem Sat.ne_ub {P : α → Prop} {E : Exc → Prop} {A : String → Prop} {x : Outcome α} (hx : Sat P E A x) (w : String) : x ≠ .ub w := by
  intro h; rw [h] at hx; exact hx

theorem parseLoop_sat (fmt : List Nat) (pos : Nat) (spec : FormatSpec) (h : pos < fmt.length) :
    Sat (fun r => pos < r.2 ∧ r.2 ≤ fmt.length) (· = .badFormat) (fun _ => False) (parseLoop fmt pos spec) := by
  have := parseLoop_ok fmt pos spec h
  revert this
  cases parseLoop fmt pos spec with
  | ok r => obtain ⟨s, np⟩ := r; exact id
  | throw e => exact id
  | _ => simp [PLoopOk]

theorem fetchLoop_sat (fmt : List Nat) (s : FState) (h : s.next ≤ fmt.length) :
    Sat (fun s' => s.next ≤ s'.next ∧ s'.next ≤ fmt.length ∧ ∃ c, rd fmt s'.next = some c ∧ (c = 0 ∨ c = 123))
      (fun _ => False) (fun _ => False) (fetchLoop fmt s) := by
  have := fetchLoop_ok fmt s h
  revert this
  cases fetchLoop fmt s with
  | ok r => exact id
  | _ => simp [FLoopOk]

/-- `fetch_prefix` stops only at the NUL or at a '{' that opens a specifier -/
theorem fetchPrefix_sat (fmt : List Nat) (pos : Nat) (h : pos ≤ fmt.length) :
    Sat (fun r => pos ≤ r.2.1 ∧ r.2.1 ≤ fmt.length ∧ rd fmt r.2.1 = some r.2.2 ∧ (r.2.2 = 0 ∨ r.2.2 = 123))
      (fun _ => False) (fun _ => False) (fetchPrefix fmt pos) := by
  unfold fetchPrefix
  refine Sat.bind (fetchLoop_sat fmt _ h) ?_
  intro s' ⟨h1, h2, c, hc, h01⟩
  simp only [hc, Sat]
  exact ⟨h1, h2, trivial, h01⟩

/-- `next_format` never throws (the `default:` branch of its switch is dead code).  It returns a
    position inside the string, and when it announces a specifier that position holds '{'. -/
theorem nextFormat_sat (fmt : List Nat) (pos : Nat) (h : pos ≤ fmt.length) :
    Sat (fun r => pos ≤ r.2.1 ∧ r.2.1 ≤ fmt.length ∧ (r.2.2 = true → r.2.1 < fmt.length ∧ rd fmt r.2.1 = some 123))
      (fun _ => False) (fun _ => False) (nextFormat fmt pos) := by
  unfold nextFormat
  refine Sat.bind (fetchPrefix_sat fmt pos h) ?_
  intro ⟨ev, p, c⟩ ⟨h1, h2, hc, h01⟩
  simp only at h1 h2 hc h01
  rcases h01 with rfl | rfl
  · simp only [if_true, Sat]; exact ⟨h1, h2, by simp⟩
  · simp only [Sat]
    exact ⟨h1, h2, fun _ => ⟨lt_of_rd_ne_zero hc (by decide), hc⟩⟩

/-- `parse_format` entered at a '{': the entry assertion holds, the result is a spec and a position
    further on, or `bad_format` -/
theorem parseFormat_sat (fmt : List Nat) (p : Nat) (h : p < fmt.length) (hc : rd fmt p = some 123) :
    Sat (fun r => p < r.2 ∧ r.2 ≤ fmt.length) (· = .badFormat) (fun _ => False) (parseFormat fmt p) := by
  unfold parseFormat
  simp only [hc]
  exact parseLoop_sat fmt p {} h

/-- what a formatter array may do: output, an exception in the class `E` (wide text that the
    default validation rejects), or an assertion in the class `A spec` -/
def FormattersOk (n : Nat) (fs : Formatters) (E : Exc → Prop) (A : FormatSpec → String → Prop) : Prop :=
  ∀ id spec, id < n → Sat (fun _ => True) E (A spec) (fs id spec)

/-- an assertion of the whole call is the assertion of one formatter, applied to a spec that
    `parse_format` produced from this format string -/
def FieldAssert (fmt : List Nat) (A : FormatSpec → String → Prop) (w : String) : Prop :=
  ∃ p spec p', parseFormat fmt p = .ok (spec, p') ∧ A spec w

theorem applyLoop_sat (fmt : List Nat) (n : Nat) (fs : Formatters) (E : Exc → Prop) (A : FormatSpec → String → Prop)
    (hfs : FormattersOk n fs E A) (pos index : Nat) (h : pos ≤ fmt.length) :
    Sat (fun _ => True) (fun e => e = .badFormat ∨ e = .outOfRange ∨ E e) (FieldAssert fmt A) (applyLoop fmt n fs pos index) := by
  induction hm : fmt.length + 1 - pos using Nat.strongRecOn generalizing pos index with
  | _ m ih =>
    rw [applyLoop]
    refine Sat.bind (Sat.mono (nextFormat_sat fmt pos h) (fun _ => id) (fun _ => False.elim) (fun _ => False.elim)) ?_
    intro ⟨ev, p, more⟩ ⟨h1, h2, h3⟩
    simp only at h1 h2 h3
    cases more with
    | false => simp [Sat]
    | true =>
      obtain ⟨hp, hc⟩ := h3 rfl
      simp only [Bool.not_true, Bool.false_eq_true, if_false]
      have hpf := parseFormat_sat fmt p hp hc
      cases hpe : parseFormat fmt p with
      | ok r =>
        obtain ⟨spec, p'⟩ := r
        rw [hpe] at hpf
        obtain ⟨h4, h5⟩ := hpf
        simp only at h4 h5
        simp only [Outcome.bind]
        by_cases hid : (formatterId spec index).1 ≥ n
        · simp only [hid, if_true, Sat]; exact Or.inr (Or.inl trivial)
        · simp only [hid, if_false]
          refine Sat.bind (Sat.mono (hfs _ spec (by omega)) (fun _ => id) (fun e he => Or.inr (Or.inr he))
            (fun w hw => ⟨p, spec, p', hpe, hw⟩)) ?_
          intro ev' _
          have hg : pos < p' ∧ p' ≤ fmt.length := ⟨by omega, h5⟩
          simp only [hg, and_self, dite_true]
          refine Sat.bind (ih (fmt.length + 1 - p') (by omega) p' _ h5 rfl) ?_
          intro rest _
          trivial
      | throw e => rw [hpe] at hpf; simp only [Outcome.bind, Sat] at hpf ⊢; exact Or.inl hpf
      | assertFail w => rw [hpe] at hpf; exact hpf.elim
      | ub w => rw [hpe] at hpf; exact hpf.elim
      | oob => rw [hpe] at hpf; exact hpf.elim
      | stuck => rw [hpe] at hpf; exact hpf.elim

theorem applyFormat_sat (fmt : List Nat) (n : Nat) (fs : Formatters) (E : Exc → Prop) (A : FormatSpec → String → Prop)
    (hfs : FormattersOk n fs E A) :
    Sat (fun _ => True) (fun e => e = .badFormat ∨ e = .outOfRange ∨ E e) (FieldAssert fmt A) (applyFormat fmt n fs) := by
  unfold applyFormat
  by_cases hn : n = 0
  · simp only [hn, if_true]
    refine Sat.bind (Sat.mono (nextFormat_sat fmt 0 (Nat.zero_le _)) (fun _ => id) (fun _ => False.elim) (fun _ => False.elim)) ?_
    intro ⟨ev, p, more⟩ _
    cases more <;> simp [Sat]
  · simp only [hn, if_false]
    exact applyLoop_sat fmt n fs E A hfs 0 0 (Nat.zero_le _)

end StVerif.Lemmas.Fmt
