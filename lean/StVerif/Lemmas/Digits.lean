/-
  Facts about the declarative digit strings of Spec/Digits.lean: `digits` is the canonical
  representation and the only one.
-/
import StVerif.Spec.Digits

namespace StVerif.Lemmas.Digits
open StVerif.Spec.Digits

/-- induction from the least significant end -/
theorem rev_ind {α : Type} {P : List α → Prop} (nil : P []) (snoc : ∀ xs x, P xs → P (xs ++ [x])) : ∀ l, P l := by
  intro l
  have : ∀ r : List α, P r.reverse := by
    intro r
    induction r with
    | nil => exact nil
    | cons a r ih => rw [List.reverse_cons]; exact snoc _ _ ih
  have h := this l.reverse
  rwa [List.reverse_reverse] at h

theorem ofDigits_nil (b : Nat) : ofDigits b [] = 0 := rfl

theorem ofDigits_append (b : Nat) (ds : List Nat) (d : Nat) : ofDigits b (ds ++ [d]) = ofDigits b ds * b + d := by
  simp [ofDigits, List.foldl_append]

theorem ofDigits_single (b d : Nat) : ofDigits b [d] = d := by simp [ofDigits]

theorem digits_small (b n : Nat) (h : n < b ∨ b < 2) : digits b n = [n] := by
  rw [digits]; simp [h]

theorem digits_step (b n : Nat) (hb : 2 ≤ b) (h : b ≤ n) : digits b n = digits b (n / b) ++ [n % b] := by
  rw [digits]; simp [show ¬ (n < b ∨ b < 2) by omega]

theorem digits_ne_nil (b n : Nat) : digits b n ≠ [] := by
  rw [digits]; split <;> simp

theorem digits_zero (b : Nat) : digits b 0 = [0] := by
  rw [digits]; split
  · rfl
  · omega

/-- `digits b n` is canonical for `n` -/
theorem digits_canonical (b : Nat) (hb : 2 ≤ b) (n : Nat) : Canonical b n (digits b n) := by
  induction n using Nat.strongRecOn with
  | _ n ih =>
    by_cases h : n < b
    · rw [digits_small b n (Or.inl h)]
      exact ⟨by simpa using h, ofDigits_single b n, by simp, by simp⟩
    · have hge : b ≤ n := by omega
      have hlt : n / b < n := Nat.div_lt_self (by omega) (by omega)
      have c := ih (n / b) hlt
      rw [digits_step b n hb hge]
      refine ⟨?_, ?_, by simp, ?_⟩
      · intro d hd
        rcases List.mem_append.mp hd with h1 | h1
        · exact c.lt_base d h1
        · have : d = n % b := by simpa using h1
          rw [this]; exact Nat.mod_lt _ (by omega)
      · rw [ofDigits_append, c.value]
        have := Nat.div_add_mod n b
        rw [Nat.mul_comm]; exact this
      · intro hh
        have hne := c.nonempty
        have : (digits b (n / b)).head? = some 0 := by
          cases hd : digits b (n / b) with
          | nil => exact absurd hd hne
          | cons x xs => rw [hd] at hh; simpa using hh
        have h0 := c.no_leading_zero this
        have hv := c.value
        rw [h0, ofDigits_single] at hv
        have : 0 < n / b := Nat.div_pos hge (by omega)
        omega

theorem digits_lt_base (b : Nat) (hb : 2 ≤ b) (n : Nat) : ∀ d ∈ digits b n, d < b := (digits_canonical b hb n).lt_base
theorem ofDigits_digits (b : Nat) (hb : 2 ≤ b) (n : Nat) : ofDigits b (digits b n) = n := (digits_canonical b hb n).value

/-- a digit list without a leading zero has a positive value -/
theorem ofDigits_pos (b : Nat) (hb : 2 ≤ b) (ds : List Nat) (hne : ds ≠ []) (hz : ds.head? ≠ some 0) : 0 < ofDigits b ds := by
  induction ds using rev_ind with
  | nil => exact absurd rfl hne
  | snoc xs d ih =>
    rw [ofDigits_append]
    cases xs with
    | nil => simp at hz; simp [ofDigits_nil]; omega
    | cons x xs' =>
      have := ih (by simp) (by simpa using hz)
      have : 0 < ofDigits b (x :: xs') * b := Nat.mul_pos this (by omega)
      omega

/-- uniqueness: the canonical representation of `n` is `digits b n` -/
theorem canonical_unique (b : Nat) (hb : 2 ≤ b) (n : Nat) (ds : List Nat) (c : Canonical b n ds) : ds = digits b n := by
  induction ds using rev_ind generalizing n with
  | nil => exact absurd rfl c.nonempty
  | snoc xs d ih =>
    have hd : d < b := c.lt_base d (by simp)
    have hv := c.value
    rw [ofDigits_append] at hv
    cases xs with
    | nil =>
      simp [ofDigits_nil] at hv
      rw [← hv, digits_small b d (Or.inl hd)]; rfl
    | cons x xs' =>
      have hx0 : x ≠ 0 := by
        intro hx
        have := c.no_leading_zero (by simp [hx])
        simp at this
      have cx : Canonical b (ofDigits b (x :: xs')) (x :: xs') :=
        ⟨fun e he => c.lt_base e (by simp at he ⊢; rcases he with h | h <;> simp [h]), rfl, by simp,
         fun hh => absurd (by simpa using hh) hx0⟩
      have hpos := ofDigits_pos b hb (x :: xs') (by simp) (by simp [hx0])
      have hmod : n % b = d := by
        rw [← hv, Nat.mul_comm, Nat.mul_add_mod]; exact Nat.mod_eq_of_lt hd
      have hdiv : n / b = ofDigits b (x :: xs') := by
        rw [← hv, Nat.mul_comm, Nat.mul_add_div (by omega), Nat.div_eq_of_lt hd]; rfl
      have hge : b ≤ n := by
        rw [← hv]
        have : b ≤ ofDigits b (x :: xs') * b := Nat.le_mul_of_pos_left b hpos
        omega
      rw [digits_step b n hb hge, hmod, hdiv, ← ih _ cx]

/-- `Canonical b n ds ↔ ds = digits b n` -/
theorem canonical_iff (b : Nat) (hb : 2 ≤ b) (n : Nat) (ds : List Nat) : Canonical b n ds ↔ ds = digits b n :=
  ⟨canonical_unique b hb n ds, fun h => h ▸ digits_canonical b hb n⟩

/-- digits of a positive number, empty for zero: the form the backwards-filling loop produces -/
def digits0 (b n : Nat) : List Nat := if n = 0 then [] else digits b n

theorem digits0_step (b : Nat) (hb : 2 ≤ b) (n : Nat) (hn : n ≠ 0) : digits0 b n = digits0 b (n / b) ++ [n % b] := by
  unfold digits0
  rw [if_neg hn]
  by_cases h : n < b
  · rw [digits_small b n (Or.inl h), if_pos (Nat.div_eq_of_lt h), Nat.mod_eq_of_lt h]; rfl
  · have : n / b ≠ 0 := Nat.ne_of_gt (Nat.div_pos (by omega) (by omega))
    rw [if_neg this, digits_step b n hb (by omega)]

theorem digits0_lt_base (b : Nat) (hb : 2 ≤ b) (n : Nat) : ∀ d ∈ digits0 b n, d < b := by
  unfold digits0; split
  · simp
  · exact digits_lt_base b hb n

/-- a canonical digit string of a number with a leading digit 0 is `[0]` -/
theorem digits_head_zero (b : Nat) (hb : 2 ≤ b) (n : Nat) (x : Nat) (xs : List Nat) (h : digits b n = x :: xs) (hx : x = 0) : xs = [] := by
  have := (digits_canonical b hb n).no_leading_zero (by rw [h, hx]; rfl)
  rw [h] at this; exact (by simpa using this : x = 0 ∧ xs = []).2

/-- a number below `b^k` has at most `k` digits -/
theorem digits_length_le (b : Nat) (hb : 2 ≤ b) : ∀ (k n : Nat), 0 < k → n < b ^ k → (digits b n).length ≤ k := by
  intro k
  induction k with
  | zero => intro n h; omega
  | succ k ih =>
    intro n _ hn
    by_cases h : n < b
    · rw [digits_small b n (Or.inl h)]; simp
    · rw [digits_step b n hb (by omega)]
      have hk : 0 < k := by
        rcases Nat.eq_zero_or_pos k with h0 | h0
        · subst h0; simp at hn; omega
        · exact h0
      have : n / b < b ^ k := by
        rw [Nat.div_lt_iff_lt_mul (by omega)]; rw [Nat.pow_succ] at hn; exact hn
      have := ih (n / b) hk this
      simp; omega

end StVerif.Lemmas.Digits
