/-
  The value-level effect of every string-level operation (`SOp`): what its targets report afterwards,
  and whether it throws, as a function of what its *operands* reported before — the "reads only its
  operands" half of C20's frame statement (the "writes only its targets" half is `sop_spec`).

  `effect vw op` is written without reference to the machine; `sop_effect` proves that the machine
  does exactly that, `effect_congr` that `effect` looks at nothing but the operands.
-/
import StVerif.Lemmas.StrPoolOps
import StVerif.Lemmas.StrPoolValues
import StVerif.Model.Sched

namespace StVerif.Sched
open StVerif StVerif.Pool StVerif.StrPool

/-- an object holding `us` reports `(|us|, us)` -/
def mk (us : List Nat) : Option View := some (us.length, us)

def unitsOf : Option View → List Nat
  | some (_, us) => us
  | none => []

instance (m : Mode) (us : List Nat) : Decidable (setThrows m us) := by unfold setThrows; infer_instance

/-- targets and their new reports (`none` = destroyed) after a completed operation, or the exception -/
def effect (vw : Nat → Option View) : SOp → Except Exc (List (Nat × Option View))
  | .ctorText o us m | .setText o us m => if setThrows m us then .error .unicodeError else .ok [(o, mk (setVal m us))]
  | .ctorDefault o | .clear o => .ok [(o, mk [])]
  | .ctorCopy o s | .assignCopy o s => .ok [(o, vw s)]
  | .ctorMove o s => .ok [(o, vw s), (s, mk [])]
  | .dtor o => .ok [(o, none)]
  | .assignMove o s => .ok [(o, vw s), (s, vw o)]
  | .appendStr o s => .ok [(o, mk (unitsOf (vw o) ++ unitsOf (vw s)))]
  | .appendText o us d => if setThrows d us then .error .unicodeError else .ok [(o, mk (unitsOf (vw o) ++ setVal d us))]
  | .appendChar o ch =>
    match Utf.writeUtf8 ch with
    | some bytes => .ok [(o, mk (unitsOf (vw o) ++ bytes))]
    | none => .error .unicodeError
  | .setConv o c | .assignConv o c =>
    match c with
    | .ok v => .ok [(o, mk v)]
    | _ => .error .unicodeError
  | .bufCtor us => .ok [(bufSlot, mk us)]
  | .setBufMove o m =>
    if setThrows m (unitsOf (vw bufSlot)) then .error .unicodeError
    else .ok [(o, mk (setVal m (unitsOf (vw bufSlot)))), (bufSlot, if m = .substituteInvalid then vw bufSlot else vw o)]
  | .ctorBufMove o m =>
    if setThrows m (unitsOf (vw bufSlot)) then .error .unicodeError
    else .ok [(o, mk (setVal m (unitsOf (vw bufSlot)))), (bufSlot, if m = .substituteInvalid then vw bufSlot else mk [])]
  | .setBufCopy o m | .ctorBufCopy o m =>
    if setThrows m (unitsOf (vw bufSlot)) then .error .unicodeError else .ok [(o, mk (setVal m (unitsOf (vw bufSlot))))]
  | .derive ds => .ok (ds.map fun dv => (dv.1, mk dv.2))
  | .deriveThrow e => .error e
  | .query => .ok []

/-- `effect` looks at its operands only -/
theorem effect_congr {vw vw' : Nat → Option View} (op : SOp)
    (h : ∀ x, x ∈ op.targets ∨ x ∈ op.reads → vw x = vw' x) : effect vw op = effect vw' op := by
  cases op <;> simp only [effect, SOp.targets, SOp.reads, List.mem_cons, List.not_mem_nil, or_false] at h ⊢
  all_goals try rfl
  all_goals try (simp only [h _ (Or.inl rfl), h _ (Or.inr rfl)])
  all_goals try (first | rw [h _ (Or.inl rfl)] | rw [h _ (Or.inr rfl)] | rw [h _ rfl])
  all_goals try (simp [h])

/-- every target of a completed operation is listed by `effect` -/
theorem effect_keys {vw : Nat → Option View} {op : SOp} {us : List (Nat × Option View)} (h : effect vw op = .ok us) :
    ∀ x ∈ op.targets, x ∈ us.map (·.1) := by
  cases op <;> simp only [effect] at h
  all_goals try (split at h)
  all_goals (cases h <;> simp [SOp.targets])

/-- the machine does what `effect` says -/
def Realises (p : Pool) (op : SOp) : Prop :=
  match effect (view p) op with
  | .ok us => ∃ p', op.run p = .ok () p' ∧ ∀ xv ∈ us, view p' xv.1 = xv.2
  | .error e => ∃ p', op.run p = .throw e p'

theorem unitsOf_view {p : Pool} {o : Nat} {b : Buf} (hb : p.objs o = some b) : unitsOf (view p o) = units p b := by
  simp [view_of_alive hb, unitsOf]

theorem mk_nil : mk [] = some (0, []) := rfl

set_option maxHeartbeats 800000 in
/-- **value-level refinement**: under C05's invariant and the operation's precondition, the targets report afterwards
    exactly what `effect` computes from what the operands reported before, and the operation throws exactly when
    `effect` says so. -/
theorem sop_effect {p : Pool} (hI : Inv p) (hF : p.failAt = none) (hT : TempsDead p) (op : SOp) (hpre : op.pre p) :
    Realises p op := by
  have dA := hT tmpA isTemp_A
  have dB := hT tmpB isTemp_B
  have dC := hT tmpC isTemp_C
  have ne : ∀ {o : Nat}, userId o → o ≠ tmpA ∧ o ≠ tmpB ∧ o ≠ tmpC ∧ o ≠ tmpD := by
    intro o h; unfold userId at h; unfold tmpA tmpB tmpC tmpD; omega
  cases op with
  | ctorText o us m =>
    obtain ⟨hu, ho⟩ := hpre
    obtain ⟨nA, _, nC, _⟩ := ne hu
    rcases ctorText_spec hI hF ho dA dC nA nC us m with ⟨hn, p', h1, _, _, _, _, v1⟩ | ⟨ht, p', h1, _⟩
    · simp only [Realises, effect, if_neg hn]
      exact ⟨p', h1, by simpa [mk] using v1⟩
    · simp only [Realises, effect, if_pos ht]
      exact ⟨p', h1⟩
  | ctorDefault o =>
    obtain ⟨_, ho⟩ := hpre
    obtain ⟨p', h1, _, q1, _⟩ := step hI hF (.ctorDefault o) ho
    simp only [Realises, effect]
    exact ⟨p', h1, by simpa [mk, okPost] using q1⟩
  | ctorCopy o s =>
    obtain ⟨_, _, ho, hs⟩ := hpre
    obtain ⟨p', h1, _, q1, _⟩ := step hI hF (.ctorCopy o s) ⟨ho, hs⟩
    simp only [Realises, effect]
    exact ⟨p', h1, by simpa [okPost] using q1⟩
  | ctorMove o s =>
    obtain ⟨_, _, ho, hs⟩ := hpre
    obtain ⟨p', h1, _, ⟨q1, q2⟩, _⟩ := step hI hF (.ctorMove o s) ⟨ho, hs⟩
    simp only [Realises, effect]
    exact ⟨p', h1, by simp [mk, q1, q2]⟩
  | dtor o =>
    obtain ⟨_, ho⟩ := hpre
    obtain ⟨p', h1, _, q1, _⟩ := step hI hF (.dtor o) ho
    simp only [Realises, effect]
    exact ⟨p', h1, by simpa [okPost] using q1⟩
  | assignCopy o s =>
    obtain ⟨_, _, ho, hs⟩ := hpre
    obtain ⟨p', h1, _, q1, _⟩ := step hI hF (.assignCopy o s) ⟨ho, hs⟩
    simp only [Realises, effect]
    exact ⟨p', h1, by simpa [okPost] using q1⟩
  | assignMove o s =>
    obtain ⟨_, _, ho, hs⟩ := hpre
    obtain ⟨p', h1, _, ⟨q1, q2⟩, _⟩ := step hI hF (.assignMove o s) ⟨ho, hs⟩
    simp only [Realises, effect]
    exact ⟨p', h1, by simp [q1, q2]⟩
  | clear o =>
    obtain ⟨_, ho⟩ := hpre
    obtain ⟨p', h1, _, q1, _⟩ := step hI hF (.clear o) ho
    simp only [Realises, effect]
    exact ⟨p', h1, by simpa [mk, okPost] using q1⟩
  | appendStr o s =>
    obtain ⟨hu, _, ⟨bo, ho⟩, ⟨bs, hs⟩⟩ := hpre
    obtain ⟨nA, nB, _, _⟩ := ne hu
    obtain ⟨p', h1, _, _, _, _, v1⟩ := appendStr_spec hI hF ho hs dA dB nA nB
    simp only [Realises, effect, unitsOf_view ho, unitsOf_view hs]
    exact ⟨p', h1, by simpa [mk] using v1⟩
  | appendText o us m =>
    obtain ⟨hu, ⟨bo, ho⟩⟩ := hpre
    rcases appendText_spec hI hF ho hT (userId_not_temp hu) us m with ⟨hn, p', h1, _, _, _, v1⟩ | ⟨ht, p', h1, _⟩
    · simp only [Realises, effect, if_neg hn, unitsOf_view ho]
      exact ⟨p', h1, by simpa [mk] using v1⟩
    · simp only [Realises, effect, if_pos ht]
      exact ⟨p', h1⟩
  | appendChar o ch =>
    obtain ⟨hu, ⟨bo, ho⟩⟩ := hpre
    obtain ⟨nA, nB, _, _⟩ := ne hu
    cases hw : Utf.writeUtf8 ch with
    | some bytes =>
      obtain ⟨p', h1, v1⟩ := appendChar_value hI hF ho dA dB nA nB ch hw
      simp only [Realises, effect, hw, unitsOf_view ho]
      exact ⟨p', h1, by simpa [mk] using v1⟩
    | none =>
      obtain ⟨p', h1⟩ := appendChar_throws hI hF ho dA dB nA nB ch hw
      simp only [Realises, effect, hw]
      exact ⟨p', h1⟩
  | setText o us m =>
    obtain ⟨hu, ⟨bo, ho⟩⟩ := hpre
    obtain ⟨nA, _, nC, _⟩ := ne hu
    rcases setUtf8_spec hI hF ho dA dC nA nC us m with ⟨hn, p', h1, _, _, _, _, v1⟩ | ⟨ht, p', h1, _⟩
    · simp only [Realises, effect, if_neg hn]
      exact ⟨p', h1, by simpa [mk] using v1⟩
    · simp only [Realises, effect, if_pos ht]
      exact ⟨p', h1⟩
  | setConv o c =>
    obtain ⟨hu, ⟨bo, ho⟩, hc⟩ := hpre
    obtain ⟨nA, _, _, _⟩ := ne hu
    rcases setConverted_spec hI hF ho dA nA hc with ⟨v, p', rfl, h1, _, _, _, v1⟩ | ⟨rfl, h1⟩
    · simp only [Realises, effect]
      exact ⟨p', h1, by simpa [mk] using v1⟩
    · simp only [Realises, effect]
      exact ⟨p, h1⟩
  | assignConv o c =>
    obtain ⟨hu, ⟨bo, ho⟩, hc⟩ := hpre
    obtain ⟨nA, nB, _, _⟩ := ne hu
    rcases assignConverted_spec hI hF ho dA dB nA nB hc with ⟨v, p', rfl, h1, _, _, _, _, v1⟩ | ⟨rfl, p', h1, _⟩
    · simp only [Realises, effect]
      exact ⟨p', h1, by simpa [mk] using v1⟩
    · simp only [Realises, effect]
      exact ⟨p', h1⟩
  | bufCtor us =>
    obtain ⟨p', h1, _, q1, _⟩ := step hI hF (.ctorUnits bufSlot us) hpre
    simp only [Realises, effect]
    exact ⟨p', h1, by simpa [mk, okPost] using q1⟩
  | setBufMove o m =>
    obtain ⟨hu, hob, ⟨bo, ho⟩, ⟨bb, hb⟩⟩ := hpre
    obtain ⟨_, _, nC, _⟩ := ne hu
    by_cases ht : setThrows m (units p bb)
    · rcases setBufMove_spec hI hF ho hb dC nC m with ⟨hn, _⟩ | ⟨_, h1⟩
      · exact absurd ht hn
      · simp only [Realises, effect, unitsOf_view hb, if_pos ht]
        exact ⟨p, h1⟩
    · obtain ⟨p', h1, _, _, _, v1, w1⟩ := setBufMove_value hI hF ho hb dC nC (fun h => hob h.symm) (by decide) m ht
      simp only [Realises, effect, unitsOf_view hb, if_neg ht]
      refine ⟨p', h1, ?_⟩
      simp only [List.mem_cons, List.not_mem_nil, or_false]
      rintro xv (rfl | rfl)
      · simpa [mk] using v1
      · exact w1
  | setBufCopy o m =>
    obtain ⟨hu, hob, ⟨bo, ho⟩, ⟨bb, hb⟩⟩ := hpre
    obtain ⟨_, _, nC, _⟩ := ne hu
    rcases setBufCopy_spec hI hF ho hb dC nC m with ⟨hn, p', h1, _, _, _, v1⟩ | ⟨ht, h1⟩
    · simp only [Realises, effect, unitsOf_view hb, if_neg hn]
      exact ⟨p', h1, by simpa [mk] using v1⟩
    · simp only [Realises, effect, unitsOf_view hb, if_pos ht]
      exact ⟨p, h1⟩
  | ctorBufMove o m =>
    obtain ⟨hu, hob, ho, ⟨bb, hb⟩⟩ := hpre
    obtain ⟨_, _, nC, _⟩ := ne hu
    obtain ⟨p1, h1, s1, q1, f1⟩ := step hI hF (.ctorDefault o) ho
    simp only [Op.run] at h1
    obtain ⟨bo, hbo⟩ := alive_of_view q1
    have hb1 : p1.objs bufSlot = some bb := by rw [s1.objs bufSlot (fun h => hob h.symm)]; exact hb
    have hC1 : p1.objs tmpC = none := by rw [s1.objs tmpC (fun h => nC h.symm)]; exact dC
    have hv1 : view p1 bufSlot = view p bufSlot := s1.view bufSlot (fun h => hob h.symm)
    have hu1 : units p1 bb = units p bb := by
      have := hv1
      rw [view_of_alive hb1, view_of_alive hb] at this
      simpa using this
    by_cases ht : setThrows m (units p bb)
    · rcases setBufMove_spec s1.inv f1 hbo hb1 hC1 nC m with ⟨hn, _⟩ | ⟨_, h2⟩
      · rw [hu1] at hn; exact absurd ht hn
      · obtain ⟨p3, h3, _⟩ := dtor_step s1.inv f1 ⟨bo, hbo⟩
        simp only [Realises, effect, unitsOf_view hb, if_pos ht]
        exact ⟨p3, ctorThen_throw h1 h2 h3⟩
    · obtain ⟨p2, h2, _, _, _, v2, w2⟩ := setBufMove_value s1.inv f1 hbo hb1 hC1 nC (fun h => hob h.symm) (by decide) m (by rw [hu1]; exact ht)
      simp only [Realises, effect, unitsOf_view hb, if_neg ht]
      refine ⟨p2, ctorThen_ok h1 h2, ?_⟩
      simp only [List.mem_cons, List.not_mem_nil, or_false]
      rintro xv (rfl | rfl)
      · rw [hu1] at v2; simpa [mk] using v2
      · rw [w2, hv1]
        simp only [okPost] at q1
        rw [q1]; rfl
  | ctorBufCopy o m =>
    obtain ⟨hu, hob, ho, ⟨bb, hb⟩⟩ := hpre
    obtain ⟨_, _, nC, _⟩ := ne hu
    obtain ⟨p1, h1, s1, q1, f1⟩ := step hI hF (.ctorDefault o) ho
    simp only [Op.run] at h1
    obtain ⟨bo, hbo⟩ := alive_of_view q1
    have hb1 : p1.objs bufSlot = some bb := by rw [s1.objs bufSlot (fun h => hob h.symm)]; exact hb
    have hC1 : p1.objs tmpC = none := by rw [s1.objs tmpC (fun h => nC h.symm)]; exact dC
    have hu1 : units p1 bb = units p bb := by
      have := s1.view bufSlot (fun h => hob h.symm)
      rw [view_of_alive hb1, view_of_alive hb] at this
      simpa using this
    rcases setBufCopy_spec s1.inv f1 hbo hb1 hC1 nC m with ⟨hn, p2, h2, _, _, _, v2⟩ | ⟨ht, h2⟩
    · rw [hu1] at hn v2
      simp only [Realises, effect, unitsOf_view hb, if_neg hn]
      exact ⟨p2, ctorThen_ok h1 h2, by simpa [mk] using v2⟩
    · rw [hu1] at ht
      obtain ⟨p3, h3, _⟩ := dtor_step s1.inv f1 ⟨bo, hbo⟩
      simp only [Realises, effect, unitsOf_view hb, if_pos ht]
      exact ⟨p3, ctorThen_throw h1 h2 h3⟩
  | derive ds =>
    obtain ⟨hd, hnd⟩ := hpre
    obtain ⟨p', h1, _, _, v1⟩ := deriveAll_spec hI hF ds (fun d h => (hd d h).2) hnd
    simp only [Realises, effect]
    refine ⟨p', h1, fun xv hxv => ?_⟩
    obtain ⟨dv, hdv, rfl⟩ := List.mem_map.mp hxv
    simpa [mk] using v1 dv hdv
  | deriveThrow e =>
    simp only [Realises, effect]
    exact ⟨p, rfl⟩
  | query =>
    simp only [Realises, effect]
    exact ⟨p, rfl, by simp⟩

end StVerif.Sched
