/-
  Helper lemmas for C09: the search the loops perform is `firstOcc`; the split loop computes the
  specified pieces (for every piece constructor); facts about the specified pieces.
-/
import StVerif.Model.Split
import StVerif.Spec.Split
import StVerif.Lemmas.SliceSep

namespace StVerif.Lemmas.Split
open StVerif StVerif.Split StVerif.Search StVerif.Spec.Search StVerif.Lemmas.Search
open StVerif.Lemmas.Slice (firstOcc_some firstOcc_none)
open StVerif.Spec.Slice (firstOcc)
open StVerif.Spec.Split (splitAux split splitAll join)
open StVerif.Slice (inSet cBytes)

/-! ### the search inside the loops -/

/-- for a non-empty needle the unguarded search is the specified first occurrence -/
theorem findRaw_eq_firstOcc (cs : CaseMode) (hay needle : List Nat) (hne : needle ≠ []) :
    findRaw cs hay needle = firstOcc cs hay needle := by
  have e : findRaw cs hay needle = findSub cs hay needle := by
    cases needle with
    | nil => exact absurd rfl hne
    | cons a b => rfl
  rw [e]
  cases h : firstOcc cs hay needle with
  | some i =>
    obtain ⟨_, ho, hm⟩ := firstOcc_some h
    exact (findSub_eq_some_iff cs hay needle i).2 ⟨hne, ho, hm⟩
  | none =>
    rcases firstOcc_none h with he | hn
    · exact absurd he hne
    · exact (findSub_eq_none_iff cs hay needle).2 (Or.inr hn)

theorem scanChar_eq_firstOcc (cs : CaseMode) (c : Nat) (hay : List Nat) :
    scanChar cs c hay 0 = firstOcc cs hay [c] := by
  rw [StVerif.Lemmas.Find.scanChar_eq_findSub]
  exact findRaw_eq_firstOcc cs hay [c] (by simp)

theorem firstOcc_bound {cs : CaseMode} {s sep : List Nat} {i : Nat} (h : firstOcc cs s sep = some i) :
    0 < sep.length ∧ i + sep.length ≤ s.length := by
  obtain ⟨hne, ho, _⟩ := firstOcc_some h
  exact ⟨List.length_pos_iff.2 hne, ho.1⟩

/-! ### the split loop -/

/-- constructing every piece in order (`emplace_back` after `emplace_back`) -/
def mkAll (mk : List Nat → Outcome (List Nat)) : List (List Nat) → Outcome (List (List Nat))
  | [] => .ok []
  | p :: ps => (mk p).bind fun q => (mkAll mk ps).bind fun qs => .ok (q :: qs)

theorem mkAll_ok (ps : List (List Nat)) : mkAll .ok ps = .ok ps := by
  induction ps with
  | nil => rfl
  | cons p ps ih => simp [mkAll, Outcome.bind, ih]

theorem mkAll_of_all_ok (mk : List Nat → Outcome (List Nat)) (ps : List (List Nat)) (h : ∀ p ∈ ps, mk p = .ok p) :
    mkAll mk ps = .ok ps := by
  induction ps with
  | nil => rfl
  | cons p ps ih =>
    simp only [mkAll, h p (by simp), Outcome.bind]
    rw [ih (fun q hq => h q (by simp [hq]))]

/-- the loop (with any piece constructor) produces the specified pieces, constructed in order; it
    never takes the `stuck` / `oob` branches and never runs out of fuel -/
theorem splitLoop_eq (cs : CaseMode) (sep : List Nat) (mk : List Nat → Outcome (List Nat))
    (fuel max : Nat) (rest : List Nat) (acc : List (List Nat)) (hf : rest.length < fuel) :
    splitLoop (fun r => firstOcc cs r sep) sep.length mk fuel max rest acc =
      (mkAll mk (splitAux cs sep fuel max rest)).bind fun ps => .ok (acc ++ ps) := by
  induction fuel generalizing max rest acc with
  | zero => omega
  | succ fuel ih =>
    unfold splitLoop splitAux
    simp only []
    by_cases hm : max = 0
    · rw [if_pos hm, if_pos hm]
      simp only [mkAll]
      cases mk rest <;> simp [Outcome.bind]
    · rw [if_neg hm, if_neg hm]
      cases h : firstOcc cs rest sep with
      | none =>
        simp only [mkAll]
        cases mk rest <;> simp [Outcome.bind]
      | some i =>
        obtain ⟨hpos, hle⟩ := firstOcc_bound h
        simp only [mkAll]
        cases hq : mk (rest.take i) with
        | ok q =>
          simp only [Outcome.bind]
          rw [if_neg (by omega), if_neg (by omega), ih (max - 1) _ _ (by simp; omega)]
          cases mkAll mk (splitAux cs sep fuel (max - 1) (rest.drop (i + sep.length))) <;> simp [Outcome.bind]
        | throw e => simp [Outcome.bind]
        | assertFail w => simp [Outcome.bind]
        | ub w => simp [Outcome.bind]
        | oob => simp [Outcome.bind]
        | stuck => simp [Outcome.bind]

/-! ### the specified pieces -/

theorem splitAux_ne_nil (cs : CaseMode) (sep : List Nat) (fuel max : Nat) (s : List Nat) :
    splitAux cs sep fuel max s ≠ [] := by
  cases fuel with
  | zero => simp [splitAux]
  | succ f =>
    unfold splitAux
    split
    · simp
    · split <;> simp

theorem splitAux_length_le (cs : CaseMode) (sep : List Nat) (fuel max : Nat) (s : List Nat) :
    (splitAux cs sep fuel max s).length ≤ max + 1 := by
  induction fuel generalizing max s with
  | zero => simp [splitAux]
  | succ f ih =>
    unfold splitAux
    split
    · simp
    · split
      · simp
      · next i _ =>
        have := ih (max - 1) (s.drop (i + sep.length))
        simp only [List.length_cons]
        omega

theorem join_cons_cons (sep a b : List Nat) (t : List (List Nat)) :
    join sep (a :: b :: t) = a ++ sep ++ join sep (b :: t) := by
  simp [join, List.intercalate, List.intersperse_cons_cons]

theorem join_single (sep a : List Nat) : join sep [a] = a := by
  simp [join, List.intercalate]

theorem join_cons_of_ne_nil (sep a : List Nat) (t : List (List Nat)) (ht : t ≠ []) :
    join sep (a :: t) = a ++ sep ++ join sep t := by
  cases t with
  | nil => exact absurd rfl ht
  | cons b t => exact join_cons_cons sep a b t

/-- the bytes of `s` at a case-sensitive occurrence are the separator -/
theorem window_of_occurs_sensitive {s sep : List Nat} {i : Nat} (h : occursAt .sensitive s sep i) :
    s = s.take i ++ sep ++ s.drop (i + sep.length) := by
  have hw : window s i sep.length = sep := h.2
  have := StVerif.Lemmas.Slice.take_window_drop s i sep.length
  rw [hw] at this
  exact this.symm

/-- case-sensitively, joining the pieces with the separator gives the original text back -/
theorem join_splitAux (sep : List Nat) (fuel max : Nat) (s : List Nat) :
    join sep (splitAux .sensitive sep fuel max s) = s := by
  induction fuel generalizing max s with
  | zero => simp [splitAux, join_single]
  | succ f ih =>
    unfold splitAux
    split
    · exact join_single sep s
    · split
      · exact join_single sep s
      · next i h =>
        obtain ⟨_, ho, _⟩ := firstOcc_some h
        rw [join_cons_of_ne_nil _ _ _ (splitAux_ne_nil _ _ _ _ _), ih]
        exact (window_of_occurs_sensitive ho).symm

/-- two outcomes built from different constructors are different -/
macro "ne_out" : tactic => `(tactic| (intro e; cases e))

theorem pieces_length_le (cs : CaseMode) (sep : List Nat) (fuel max : Nat) (s : List Nat) :
    ∀ p ∈ splitAux cs sep fuel max s, p.length ≤ s.length := by
  induction fuel generalizing max s with
  | zero => intro p hp; simp [splitAux] at hp; rw [hp]; exact Nat.le_refl _
  | succ f ih =>
    intro p hp
    unfold splitAux at hp
    split at hp
    · simp at hp; rw [hp]; exact Nat.le_refl _
    · split at hp
      · simp at hp; rw [hp]; exact Nat.le_refl _
      · next i _ =>
        rcases List.mem_cons.1 hp with e | e
        · rw [e, List.length_take]; omega
        · have := ih (max - 1) (s.drop (i + sep.length)) p e
          rw [List.length_drop] at this
          omega

theorem mkAll_not_stuck (mk : List Nat → Outcome (List Nat)) (h : ∀ p, mk p ≠ .stuck ∧ mk p ≠ .oob) (ps : List (List Nat)) :
    mkAll mk ps ≠ .stuck ∧ mkAll mk ps ≠ .oob := by
  induction ps with
  | nil => exact ⟨by ne_out, by ne_out⟩
  | cons p ps ih =>
    unfold mkAll
    cases hq : mk p with
    | ok q =>
      simp only [Outcome.bind]
      cases hr : mkAll mk ps with
      | ok qs => exact ⟨by ne_out, by ne_out⟩
      | stuck => exact absurd hr ih.1
      | oob => exact absurd hr ih.2
      | throw e => exact ⟨by ne_out, by ne_out⟩
      | assertFail w => exact ⟨by ne_out, by ne_out⟩
      | ub w => exact ⟨by ne_out, by ne_out⟩
    | stuck => exact absurd hq (h p).1
    | oob => exact absurd hq (h p).2
    | throw e => exact ⟨by ne_out, by ne_out⟩
    | assertFail w => exact ⟨by ne_out, by ne_out⟩
    | ub w => exact ⟨by ne_out, by ne_out⟩

theorem stringSet_not_stuck (m : Mode) (p : List Nat) :
    Utf.stringSetUtf8 m (some p) ≠ .stuck ∧ Utf.stringSetUtf8 m (some p) ≠ .oob := by
  unfold Utf.stringSetUtf8
  simp only []
  split
  · exact ⟨by ne_out, by ne_out⟩
  · cases m with
    | checkValidity =>
      simp only []
      split <;> exact ⟨by ne_out, by ne_out⟩
    | substituteInvalid => exact ⟨by ne_out, by ne_out⟩
    | assumeValid => exact ⟨by ne_out, by ne_out⟩

/-- the `const char*` overload always comes back (with the pieces, or with the validating
    constructor's exception): it neither spins nor runs past the end -/
theorem splitCstr_not_stuck (cs : CaseMode) (s p : List Nat) (max : Nat) :
    splitCstr cs s (some p) max ≠ .stuck ∧ splitCstr cs s (some p) max ≠ .oob := by
  unfold splitCstr
  simp only []
  by_cases he : (cBytes p).isEmpty = true
  · rw [if_pos he]; exact ⟨by ne_out, by ne_out⟩
  · rw [if_neg he]
    have hne : cBytes p ≠ [] := fun h => he (by rw [h]; rfl)
    have hfun : (fun rest => findRaw cs rest (cBytes p)) = (fun r => firstOcc cs r (cBytes p)) :=
      funext fun r => findRaw_eq_firstOcc cs r (cBytes p) hne
    rw [hfun, splitLoop_eq cs (cBytes p) _ (s.length + 1) max s [] (by omega)]
    have := mkAll_not_stuck (fun piece => Utf.stringSetUtf8 (splitterValidation (cBytes p)) (some piece))
      (fun q => stringSet_not_stuck _ q) (splitAux cs (cBytes p) (s.length + 1) max s)
    cases hr : mkAll (fun piece => Utf.stringSetUtf8 (splitterValidation (cBytes p)) (some piece))
        (splitAux cs (cBytes p) (s.length + 1) max s) with
    | ok qs => exact ⟨by ne_out, by ne_out⟩
    | stuck => exact absurd hr this.1
    | oob => exact absurd hr this.2
    | throw e => exact ⟨by ne_out, by ne_out⟩
    | assertFail w => exact ⟨by ne_out, by ne_out⟩
    | ub w => exact ⟨by ne_out, by ne_out⟩

/-! ### tokenize -/

open StVerif.Spec.Split (fields tokens)

theorem fields_ne_nil (p : Nat → Bool) (s : List Nat) : fields p s ≠ [] := by
  cases s with
  | nil => simp [fields]
  | cons c rest =>
    unfold fields
    split
    · simp
    · split <;> simp

theorem fields_cons_delim (p : Nat → Bool) (c : Nat) (rest : List Nat) (hc : p c = true) :
    fields p (c :: rest) = [] :: fields p rest := by
  rw [fields, if_pos hc]

/-- a delimiter in front contributes no token -/
theorem tokens_cons_delim (d : List Nat) (c : Nat) (rest : List Nat) (hc : d.contains c = true) :
    tokens d (c :: rest) = tokens d rest := by
  unfold tokens
  rw [fields_cons_delim (d.contains ·) c rest hc]
  rfl

theorem tokens_dropWhile_delim (d s : List Nat) : tokens d (s.dropWhile (inSet d)) = tokens d s := by
  induction s with
  | nil => rfl
  | cons c rest ih =>
    rw [List.dropWhile_cons]
    by_cases hc : inSet d c = true
    · rw [if_pos hc, ih, tokens_cons_delim d c rest hc]
    · rw [if_neg hc]

/-- `fields` of a run of non-delimiters followed by `r1` -/
theorem fields_run_append (p : Nat → Bool) (tok r1 : List Nat) (ht : ∀ c ∈ tok, p c = false) :
    ∃ f fs, fields p r1 = f :: fs ∧ fields p (tok ++ r1) = (tok ++ f) :: fs := by
  induction tok with
  | nil =>
    cases h : fields p r1 with
    | nil => exact absurd h (fields_ne_nil p r1)
    | cons f fs => exact ⟨f, fs, rfl, by simpa using h⟩
  | cons c tok ih =>
    obtain ⟨f, fs, e1, e2⟩ := ih (fun x hx => ht x (by simp [hx]))
    refine ⟨f, fs, e1, ?_⟩
    have hc : p c = false := ht c (by simp)
    simp only [List.cons_append, fields, hc, Bool.false_eq_true, if_false, e2]

/-- a non-empty run of non-delimiters that ends at the end of the text or at a delimiter is the next token -/
theorem tokens_run_append (d tok r1 : List Nat) (hne : tok ≠ []) (ht : ∀ c ∈ tok, d.contains c = false)
    (hr : r1 = [] ∨ ∃ c r, r1 = c :: r ∧ d.contains c = true) :
    tokens d (tok ++ r1) = tok :: tokens d r1 := by
  obtain ⟨f, fs, e1, e2⟩ := fields_run_append (d.contains ·) tok r1 ht
  have hf : f = [] := by
    rcases hr with h | ⟨c, r, h, hc⟩
    · subst h
      have e : ([[]] : List (List Nat)) = f :: fs := e1
      injection e with e _
      exact e.symm
    · subst h
      rw [fields_cons_delim (d.contains ·) c r hc] at e1
      injection e1 with e _
      exact e.symm
  subst hf
  unfold tokens
  rw [e2, e1, List.append_nil]
  have : (!tok.isEmpty) = true := by
    cases tok with
    | nil => exact absurd rfl hne
    | cons _ _ => rfl
  rw [List.filter_cons, if_pos this]
  rfl

theorem takeWhile_all (p : Nat → Bool) (s : List Nat) : ∀ c ∈ s.takeWhile p, p c = true := by
  induction s with
  | nil => simp
  | cons a rest ih =>
    rw [List.takeWhile_cons]
    by_cases h : p a = true
    · rw [if_pos h]
      intro c hc
      rcases List.mem_cons.1 hc with e | e
      · rw [e]; exact h
      · exact ih c e
    · rw [if_neg h]; simp

theorem dropWhile_head (p : Nat → Bool) (s : List Nat) :
    s.dropWhile p = [] ∨ ∃ c r, s.dropWhile p = c :: r ∧ p c = false := by
  induction s with
  | nil => exact Or.inl rfl
  | cons a rest ih =>
    rw [List.dropWhile_cons]
    by_cases h : p a = true
    · rw [if_pos h]; exact ih
    · rw [if_neg h]; exact Or.inr ⟨a, rest, rfl, by simpa using h⟩

theorem tokens_nil (d : List Nat) : tokens d [] = [] := by simp [tokens, fields]

/-- the outer loop of `tokenize` emits the specified tokens and always makes progress -/
theorem tokLoop_eq (d : List Nat) (fuel : Nat) (rest : List Nat) (acc : List (List Nat)) (hf : rest.length < fuel) :
    tokLoop d fuel rest acc = .ok (acc ++ tokens d rest) := by
  induction fuel generalizing rest acc with
  | zero => omega
  | succ fuel ih =>
    unfold tokLoop
    by_cases he : rest.isEmpty = true
    · rw [if_pos he]
      have : rest = [] := List.isEmpty_iff.1 he
      subst this
      rw [tokens_nil, List.append_nil]
    · rw [if_neg he]
      simp only []
      have hsplit := List.takeWhile_append_dropWhile (p := fun c => !inSet d c) (l := rest)
      have htok := takeWhile_all (fun c => !inSet d c) rest
      have hl1 := StVerif.Lemmas.Slice.length_dropWhile_le (inSet d) (rest.dropWhile (fun c => !inSet d c))
      have hlen := congrArg List.length hsplit
      rw [List.length_append] at hlen
      have hne : rest ≠ [] := fun h => he (by rw [h]; rfl)
      have hpos : 0 < rest.length := List.length_pos_iff.2 hne
      -- what the specified tokens of `rest` are, by the first byte
      by_cases htk : (rest.takeWhile (fun c => !inSet d c)).isEmpty = true
      · -- `rest` starts with a delimiter: nothing emitted, the delimiter run is skipped
        have htn : rest.takeWhile (fun c => !inSet d c) = [] := List.isEmpty_iff.1 htk
        have hd : rest.dropWhile (fun c => !inSet d c) = rest := by rw [htn] at hsplit; simpa using hsplit
        rw [if_pos htk, hd]
        cases hr : rest with
        | nil => exact absurd hr hne
        | cons c r =>
          have hc : inSet d c = true := by
            rw [hr, List.takeWhile_cons] at htn
            by_cases h : (!inSet d c) = true
            · rw [if_pos h] at htn; cases htn
            · simpa using h
          have hlt : ((c :: r).dropWhile (inSet d)).length < (c :: r).length := by
            rw [List.dropWhile_cons, if_pos hc]
            have := StVerif.Lemmas.Slice.length_dropWhile_le (inSet d) r
            simp only [List.length_cons]; omega
          rw [if_pos hlt, ih _ _ (by rw [hr] at hf; simp only [List.length_cons] at hf hlt ⊢; omega), tokens_dropWhile_delim]
      · -- a token is emitted
        rw [if_neg htk]
        have htne : rest.takeWhile (fun c => !inSet d c) ≠ [] := fun h => htk (by rw [h]; rfl)
        have htpos : 0 < (rest.takeWhile (fun c => !inSet d c)).length := List.length_pos_iff.2 htne
        rw [if_pos (by omega), ih _ _ (by omega), tokens_dropWhile_delim]
        have hr := dropWhile_head (fun c => !inSet d c) rest
        have key := tokens_run_append d (rest.takeWhile (fun c => !inSet d c)) (rest.dropWhile (fun c => !inSet d c)) htne
          (fun c hc => by have := htok c hc; simpa [inSet] using this)
          (by
            rcases hr with h | ⟨c, r, h, hc⟩
            · exact Or.inl h
            · exact Or.inr ⟨c, r, h, by simpa [inSet] using hc⟩)
        rw [hsplit] at key
        rw [key, List.append_assoc]
        rfl

/-! ### the specified tokens are the maximal runs -/

open StVerif.Spec.Split (Runs)

theorem tokens_nonempty (d s : List Nat) : ∀ t ∈ tokens d s, t ≠ [] := by
  intro t ht
  have := (List.mem_filter.1 ht).2
  intro h
  rw [h] at this
  exact absurd this (by decide)

theorem fields_no_delim (p : Nat → Bool) (s : List Nat) : ∀ f ∈ fields p s, ∀ c ∈ f, p c = false := by
  induction s with
  | nil => intro f hf c hc; simp [fields] at hf; rw [hf] at hc; cases hc
  | cons a rest ih =>
    intro f hf c hc
    by_cases ha : p a = true
    · rw [fields_cons_delim p a rest ha] at hf
      rcases List.mem_cons.1 hf with e | e
      · rw [e] at hc; cases hc
      · exact ih f e c hc
    · rw [fields, if_neg ha] at hf
      cases hfr : fields p rest with
      | nil => exact absurd hfr (fields_ne_nil p rest)
      | cons f0 fs =>
        rw [hfr] at hf
        rcases List.mem_cons.1 hf with e | e
        · rw [e] at hc
          rcases List.mem_cons.1 hc with e2 | e2
          · rw [e2]; simpa using ha
          · exact ih f0 (by rw [hfr]; simp) c e2
        · exact ih f (by rw [hfr]; simp [e]) c hc

theorem tokens_no_delim (d s : List Nat) : ∀ t ∈ tokens d s, ∀ c ∈ t, d.contains c = false := by
  intro t ht c hc
  exact fields_no_delim (d.contains ·) s t (List.mem_filter.1 ht).1 c hc

theorem tokens_runs_aux (d : List Nat) (n : Nat) (s : List Nat) (hn : s.length ≤ n) :
    Runs (d.contains ·) s (tokens d s) := by
  induction n generalizing s with
  | zero =>
    have : s = [] := List.eq_nil_of_length_eq_zero (by omega)
    subst this
    rw [tokens_nil]
    exact Runs.done [] (by simp)
  | succ n ih =>
    have hsplit := List.takeWhile_append_dropWhile (p := inSet d) (l := s)
    have hg := takeWhile_all (inSet d) s
    rw [← tokens_dropWhile_delim d s]
    rcases dropWhile_head (inSet d) s with h1 | ⟨c1, r1, h1, hc1⟩
    · -- only delimiters
      rw [h1, tokens_nil]
      rw [h1, List.append_nil] at hsplit
      rw [← hsplit]
      exact Runs.done _ (fun c hc => by have := hg c hc; simpa [inSet] using this)
    · -- a token follows the gap
      have hs2 := List.takeWhile_append_dropWhile (p := fun c => !inSet d c) (l := s.dropWhile (inSet d))
      have ht := takeWhile_all (fun c => !inSet d c) (s.dropWhile (inSet d))
      have htne : (s.dropWhile (inSet d)).takeWhile (fun c => !inSet d c) ≠ [] := by
        rw [h1, List.takeWhile_cons, if_pos (by simpa using hc1)]; simp
      have hr := dropWhile_head (fun c => !inSet d c) (s.dropWhile (inSet d))
      have hr' : (s.dropWhile (inSet d)).dropWhile (fun c => !inSet d c) = [] ∨
          ∃ c r, (s.dropWhile (inSet d)).dropWhile (fun c => !inSet d c) = c :: r ∧ d.contains c = true := by
        rcases hr with h | ⟨c, r, h, hc⟩
        · exact Or.inl h
        · exact Or.inr ⟨c, r, h, by simpa [inSet] using hc⟩
      have ht' : ∀ c ∈ (s.dropWhile (inSet d)).takeWhile (fun c => !inSet d c), d.contains c = false :=
        fun c hc => by have := ht c hc; simpa [inSet] using this
      have key := tokens_run_append d _ _ htne ht' hr'
      rw [hs2] at key
      rw [key]
      have hlen1 := congrArg List.length hsplit
      have hlen2 := congrArg List.length hs2
      rw [List.length_append] at hlen1 hlen2
      have htpos := List.length_pos_iff.2 htne
      have hrec := ih ((s.dropWhile (inSet d)).dropWhile (fun c => !inSet d c)) (by omega)
      have := Runs.tok (s.takeWhile (inSet d)) _ _ _ (fun c hc => by have := hg c hc; simpa [inSet] using this) htne ht' hr' hrec
      rw [List.append_assoc, hs2, hsplit] at this
      exact this

/-- the specified tokens are exactly the maximal non-empty runs of non-delimiters -/
theorem tokens_runs (d s : List Nat) : Runs (d.contains ·) s (tokens d s) := tokens_runs_aux d s.length s (Nat.le_refl _)

/-- a maximal prefix of elements satisfying `q` is unique -/
theorem unique_span (q : Nat → Bool) (g g' x x' : List Nat) (h : g ++ x = g' ++ x')
    (hg : ∀ c ∈ g, q c = true) (hg' : ∀ c ∈ g', q c = true)
    (hx : x = [] ∨ ∃ c r, x = c :: r ∧ q c = false) (hx' : x' = [] ∨ ∃ c r, x' = c :: r ∧ q c = false) :
    g = g' ∧ x = x' := by
  induction g generalizing g' with
  | nil =>
    cases g' with
    | nil => exact ⟨rfl, by simpa using h⟩
    | cons c g'' =>
      exfalso
      have hc := hg' c (by simp)
      rcases hx with hx | ⟨d, r, hx, hd⟩
      · rw [hx] at h; simp at h
      · rw [hx] at h
        simp only [List.nil_append, List.cons_append, List.cons.injEq] at h
        rw [h.1, hc] at hd; cases hd
  | cons c g1 ih =>
    cases g' with
    | nil =>
      exfalso
      have hc := hg c (by simp)
      rcases hx' with hx' | ⟨d, r, hx', hd⟩
      · rw [hx'] at h; simp at h
      · rw [hx'] at h
        simp only [List.nil_append, List.cons_append, List.cons.injEq] at h
        rw [← h.1, hc] at hd; cases hd
    | cons c' g1' =>
      simp only [List.cons_append, List.cons.injEq] at h
      obtain ⟨e1, e2⟩ := ih g1' h.2 (fun d hd => hg d (by simp [hd])) (fun d hd => hg' d (by simp [hd]))
      exact ⟨by rw [h.1, e1], e2⟩

/-- the decomposition into maximal runs is unique: `Runs` determines the token list -/
theorem runs_unique (p : Nat → Bool) (s : List Nat) (ts ts' : List (List Nat)) (h : Runs p s ts) (h' : Runs p s ts') :
    ts = ts' := by
  induction h generalizing ts' with
  | done g hg =>
    cases h' with
    | done _ _ => rfl
    | tok g' t' rest' ts0' hg' hne' ht' hr' hrec' =>
      exfalso
      cases ht0 : t' with
      | nil => exact hne' ht0
      | cons c r =>
        have hc : p c = false := ht' c (by rw [ht0]; simp)
        have : c ∈ g' ++ t' ++ rest' := by rw [ht0]; simp
        rw [hg c this] at hc; cases hc
  | tok g t rest ts0 hg hne ht hr hrec ih =>
    generalize hs : g ++ t ++ rest = s at h'
    cases h' with
    | done _ hg' =>
      exfalso
      cases ht0 : t with
      | nil => exact hne ht0
      | cons c r =>
        have hc : p c = false := ht c (by rw [ht0]; simp)
        have : c ∈ s := by rw [← hs, ht0]; simp
        rw [hg' c this] at hc; cases hc
    | tok g' t' rest' ts0' hg' hne' ht' hr' hrec' =>
      have hhead : ∀ (u v : List Nat), u ≠ [] → (∀ c ∈ u, p c = false) → ∃ c r, u ++ v = c :: r ∧ p c = false := by
        intro u v hu hall
        cases u with
        | nil => exact absurd rfl hu
        | cons c r => exact ⟨c, r ++ v, rfl, hall c (by simp)⟩
      have e1 := unique_span p g g' (t ++ rest) (t' ++ rest') (by simpa [List.append_assoc] using hs) hg hg'
        (Or.inr (hhead t rest hne ht)) (Or.inr (hhead t' rest' hne' ht'))
      have flip : ∀ (r0 : List Nat), (r0 = [] ∨ ∃ c r, r0 = c :: r ∧ p c = true) →
          (r0 = [] ∨ ∃ c r, r0 = c :: r ∧ (!p c) = false) := by
        intro r0 h0
        rcases h0 with h0 | ⟨c, r, h0, hc⟩
        · exact Or.inl h0
        · exact Or.inr ⟨c, r, h0, by simp [hc]⟩
      have e2 := unique_span (fun c => !p c) t t' rest rest' e1.2 (fun c hc => by simp [ht c hc]) (fun c hc => by simp [ht' c hc])
        (flip rest hr) (flip rest' hr')
      obtain ⟨et, er⟩ := e2
      subst et; subst er
      rw [ih ts0' hrec']


/-! ### replace -/

open StVerif.Spec.Split (occurrences)

/-- the specified replacement (`Spec.Split.replace`; the model has a `replace` too) -/
abbrev specReplace := @StVerif.Spec.Split.replace

theorem firstOcc_nil (cs : CaseMode) (pat : List Nat) : firstOcc cs [] pat = none := by
  cases h : firstOcc cs [] pat with
  | none => rfl
  | some i =>
    obtain ⟨h1, h2⟩ := firstOcc_bound h
    have : ([] : List Nat).length = 0 := rfl
    omega

/-- number of cuts the specified split makes -/
def cuts (cs : CaseMode) (pat : List Nat) (fuel max : Nat) (s : List Nat) : Nat := (splitAux cs pat fuel max s).length - 1

theorem cuts_zero_of_max (cs : CaseMode) (pat : List Nat) (fuel : Nat) (s : List Nat) : cuts cs pat fuel 0 s = 0 := by
  cases fuel <;> simp [cuts, splitAux]

theorem splitAux_hit (cs : CaseMode) (pat : List Nat) (fuel max : Nat) (s : List Nat) (i : Nat) (hm : max ≠ 0)
    (h : firstOcc cs s pat = some i) :
    splitAux cs pat (fuel + 1) max s = s.take i :: splitAux cs pat fuel (max - 1) (s.drop (i + pat.length)) := by
  rw [splitAux, if_neg hm, h]

theorem splitAux_miss (cs : CaseMode) (pat : List Nat) (fuel max : Nat) (s : List Nat)
    (h : max = 0 ∨ firstOcc cs s pat = none) : splitAux cs pat (fuel + 1) max s = [s] := by
  rw [splitAux]
  rcases h with h | h
  · rw [if_pos h]
  · split
    · rfl
    · rw [h]

theorem cuts_hit (cs : CaseMode) (pat : List Nat) (fuel max : Nat) (s : List Nat) (i : Nat) (hm : max ≠ 0)
    (h : firstOcc cs s pat = some i) :
    cuts cs pat (fuel + 1) max s = cuts cs pat fuel (max - 1) (s.drop (i + pat.length)) + 1 := by
  unfold cuts
  rw [splitAux_hit cs pat fuel max s i hm h, List.length_cons]
  have := List.length_pos_iff.2 (splitAux_ne_nil cs pat fuel (max - 1) (s.drop (i + pat.length)))
  omega

/-- the copying scan writes the specified replacement -/
theorem copyLoop_eq (cs : CaseMode) (pat to : List Nat) (hne : pat ≠ []) (fuel max : Nat) (rest out : List Nat)
    (hf : rest.length < fuel) (hm : rest.length ≤ max) :
    copyLoop cs pat to fuel rest out = .ok (out ++ join to (splitAux cs pat fuel max rest)) := by
  induction fuel generalizing max rest out with
  | zero => omega
  | succ fuel ih =>
    unfold copyLoop
    rw [findRaw_eq_firstOcc cs rest pat hne]
    cases h : firstOcc cs rest pat with
    | none => rw [splitAux_miss cs pat fuel max rest (Or.inr h), join_single]
    | some i =>
      obtain ⟨hpos, hle⟩ := firstOcc_bound h
      have hm0 : max ≠ 0 := by omega
      simp only []
      rw [if_neg (by omega), if_neg (by omega), ih (max - 1) _ _ (by simp; omega) (by simp; omega),
        splitAux_hit cs pat fuel max rest i hm0 h, join_cons_of_ne_nil _ _ _ (splitAux_ne_nil _ _ _ _ _)]
      simp only [List.append_assoc]

theorem wrap64_add_wrap64 (a b : Int) : wrap64 ((wrap64 a : Int) + b) = wrap64 (a + b) := by
  unfold wrap64; omega

/-- the counting scan adds the size difference once per specified cut (modulo 2^64) -/
theorem countLoop_eq (cs : CaseMode) (pat : List Nat) (delta : Int) (hne : pat ≠ []) (fuel max : Nat) (rest : List Nat)
    (outsize : Int) (hf : rest.length < fuel) (hm : rest.length ≤ max) :
    countLoop cs pat delta fuel rest (wrap64 outsize) = .ok (wrap64 (outsize + (cuts cs pat fuel max rest : Int) * delta)) := by
  induction fuel generalizing max rest outsize with
  | zero => omega
  | succ fuel ih =>
    unfold countLoop
    rw [findRaw_eq_firstOcc cs rest pat hne]
    cases h : firstOcc cs rest pat with
    | none =>
      have : cuts cs pat (fuel + 1) max rest = 0 := by unfold cuts; rw [splitAux_miss cs pat fuel max rest (Or.inr h)]; rfl
      rw [this]; simp
    | some i =>
      obtain ⟨hpos, hle⟩ := firstOcc_bound h
      have hm0 : max ≠ 0 := by omega
      simp only []
      rw [if_neg (by omega), if_neg (by omega), wrap64_add_wrap64, ih (max - 1) _ _ (by simp; omega) (by simp; omega),
        cuts_hit cs pat fuel max rest i hm0 h]
      congr 2
      rw [Int.natCast_add, Int.add_mul]
      simp only [Int.natCast_one, Int.one_mul]
      omega

theorem join_length_single (to a : List Nat) : (join to [a]).length = a.length := by rw [join_single]

/-- length of the replacement: one size difference per cut -/
theorem join_splitAux_length (cs : CaseMode) (pat to : List Nat) (fuel max : Nat) (s : List Nat) :
    ((join to (splitAux cs pat fuel max s)).length : Int) =
      (s.length : Int) + (cuts cs pat fuel max s : Int) * ((to.length : Int) - (pat.length : Int)) := by
  induction fuel generalizing max s with
  | zero => simp [splitAux, cuts, join_single]
  | succ fuel ih =>
    by_cases hm : max = 0
    · rw [splitAux_miss cs pat fuel max s (Or.inl hm)]
      simp [cuts, splitAux_miss cs pat fuel max s (Or.inl hm), join_single]
    · cases h : firstOcc cs s pat with
      | none =>
        rw [splitAux_miss cs pat fuel max s (Or.inr h)]
        simp [cuts, splitAux_miss cs pat fuel max s (Or.inr h), join_single]
      | some i =>
        obtain ⟨hpos, hle⟩ := firstOcc_bound h
        rw [splitAux_hit cs pat fuel max s i hm h, join_cons_of_ne_nil _ _ _ (splitAux_ne_nil _ _ _ _ _),
          cuts_hit cs pat fuel max s i hm h]
        simp only [List.length_append, List.length_take, Int.natCast_add]
        rw [ih (max - 1) (s.drop (i + pat.length)), Int.add_mul]
        simp only [List.length_drop, Int.natCast_one, Int.one_mul]
        have : min i s.length = i := by omega
        rw [this]
        omega

theorem spec_replace_eq (cs : CaseMode) (pat to s : List Nat) :
    specReplace cs pat to s = join to (splitAux cs pat (s.length + 1) s.length s) := rfl

theorem occurrences_eq (cs : CaseMode) (pat s : List Nat) :
    occurrences cs pat s = cuts cs pat (s.length + 1) s.length s := rfl

/-- both scans of `replace` find the same occurrences: the second stores exactly what the first
    sized, and the text is the specified replacement -/
theorem replaceScans_eq (cs : CaseMode) (s pat to : List Nat) (hs64 : s.length < 2^64)
    (hfit : (specReplace cs pat to s).length < 2^64) :
    replaceScans cs s pat to = .ok ⟨specReplace cs pat to s, (specReplace cs pat to s).length⟩ := by
  unfold replaceScans
  by_cases he : s.isEmpty = true ∨ pat.isEmpty = true
  · rw [if_pos he]
    have : specReplace cs pat to s = s := by
      rw [spec_replace_eq]
      rcases he with h | h
      · have : s = [] := List.isEmpty_iff.1 h
        subst this
        rfl
      · have hp : pat = [] := List.isEmpty_iff.1 h
        subst hp
        have : firstOcc cs s [] = none := by unfold firstOcc; rfl
        rw [splitAux_miss cs [] s.length s.length s (Or.inr this), join_single]
    rw [this]
  · rw [if_neg he]
    have hs : s ≠ [] := fun h => he (Or.inl (by rw [h]; rfl))
    have hp : pat ≠ [] := fun h => he (Or.inr (by rw [h]; rfl))
    have hcopy := copyLoop_eq cs pat to hp (s.length + 1) s.length s [] (by omega) (by omega)
    rw [List.nil_append, ← spec_replace_eq] at hcopy
    have hlen := join_splitAux_length cs pat to (s.length + 1) s.length s
    rw [← spec_replace_eq] at hlen
    simp only []
    have hsize : (if pat.length ≠ to.length then
          countLoop cs pat ((to.length : Int) - (pat.length : Int)) (s.length + 1) s s.length
        else Outcome.ok s.length) = .ok (specReplace cs pat to s).length := by
      by_cases hd : pat.length ≠ to.length
      · rw [if_pos hd]
        have hw : s.length = wrap64 (s.length : Int) := by unfold wrap64; omega
        have hc := countLoop_eq cs pat ((to.length : Int) - (pat.length : Int)) hp (s.length + 1) s.length s (s.length : Int) (by omega) (by omega)
        rw [← hw] at hc
        rw [hc, ← hlen]
        congr 1
        unfold wrap64; omega
      · rw [if_neg hd]
        have : (to.length : Int) - (pat.length : Int) = 0 := by omega
        rw [this, Int.mul_zero, Int.add_zero] at hlen
        congr 1
        omega
    rw [hsize, hcopy]
    simp only [Outcome.bind]
    rw [if_neg (by omega), if_neg (by omega)]

/-! ### fuel independence, case folding -/

/-- the fuel of the specified split is never exhausted: any two sufficient fuels give the same pieces -/
theorem splitAux_fuel (cs : CaseMode) (sep : List Nat) (f1 f2 max : Nat) (s : List Nat)
    (h1 : s.length < f1) (h2 : s.length < f2) : splitAux cs sep f1 max s = splitAux cs sep f2 max s := by
  induction f1 generalizing f2 max s with
  | zero => omega
  | succ f1 ih =>
    cases f2 with
    | zero => omega
    | succ f2 =>
      by_cases hm : max = 0
      · rw [splitAux_miss cs sep f1 max s (Or.inl hm), splitAux_miss cs sep f2 max s (Or.inl hm)]
      · cases h : firstOcc cs s sep with
        | none => rw [splitAux_miss cs sep f1 max s (Or.inr h), splitAux_miss cs sep f2 max s (Or.inr h)]
        | some i =>
          obtain ⟨hpos, hle⟩ := firstOcc_bound h
          rw [splitAux_hit cs sep f1 max s i hm h, splitAux_hit cs sep f2 max s i hm h,
            ih f2 (max - 1) _ (by simp; omega) (by simp; omega)]

/-- the insensitive search is the sensitive search on the ASCII-folded text and separator -/
theorem firstOcc_fold (s sep : List Nat) :
    firstOcc .insensitive s sep = firstOcc .sensitive (s.map foldAscii) (sep.map foldAscii) := by
  unfold firstOcc
  have e : (fun i => decide (occursAt .insensitive s sep i)) =
      (fun i => decide (occursAt .sensitive (s.map foldAscii) (sep.map foldAscii) i)) :=
    funext fun i => decide_eq_decide.2 (StVerif.Lemmas.SearchSpec.occursAt_fold s sep i)
  rw [e, List.length_map]
  by_cases h : sep = []
  · rw [if_pos h, if_pos (by rw [h]; rfl)]
  · rw [if_neg h, if_neg (by intro h2; exact h (List.map_eq_nil_iff.1 h2))]

/-- case-insensitive matching folds ASCII letters only: the insensitive split cuts where the
    sensitive split of the folded text by the folded separator cuts -/
theorem splitAux_fold (sep : List Nat) (fuel max : Nat) (s : List Nat) :
    (splitAux .insensitive sep fuel max s).map (·.map foldAscii) =
      splitAux .sensitive (sep.map foldAscii) fuel max (s.map foldAscii) := by
  induction fuel generalizing max s with
  | zero => simp [splitAux]
  | succ f ih =>
    by_cases hm : max = 0
    · rw [splitAux_miss _ _ f max s (Or.inl hm), splitAux_miss _ _ f max _ (Or.inl hm)]; rfl
    · cases h : firstOcc .insensitive s sep with
      | none =>
        have h' := h; rw [firstOcc_fold] at h'
        rw [splitAux_miss _ _ f max s (Or.inr h), splitAux_miss _ _ f max _ (Or.inr h')]; rfl
      | some i =>
        have h' := h; rw [firstOcc_fold] at h'
        rw [splitAux_hit _ _ f max s i hm h, splitAux_hit _ _ f max _ i hm h', List.map_cons, ih,
          List.map_take, List.map_drop, List.length_map]

end StVerif.Lemmas.Split
