/-
  Evaluation lemmas for the pool machine (Model/Pool.lean): the monad, the primitive
  operations on explicit states, function updates and `overwrite`.
-/
import StVerif.Model.Pool

namespace StVerif.Pool

/-! ### the monad -/

@[simp] theorem bind_apply {α β} (x : M α) (f : α → M β) (p : Pool) :
    (x >>= f) p = match x p with
      | .ok a p' => f a p' | .fault e p' => .fault e p' | .throw e p' => .throw e p' := rfl
@[simp] theorem pure_apply {α} (a : α) (p : Pool) : (pure a : M α) p = .ok a p := rfl
@[simp] theorem getP_apply (p : Pool) : getP p = .ok p p := rfl
@[simp] theorem fault_apply {α} (f : Fault) (p : Pool) : (fault f : M α) p = .fault f p := rfl

/-! ### function update -/

/-- `f[i ↦ v]` -/
def upd {α : Type} (f : Nat → α) (i : Nat) (v : α) : Nat → α := fun x => if x = i then v else f x

@[simp] theorem upd_same {α} (f : Nat → α) (i : Nat) (v : α) : upd f i v i = v := by simp [upd]
theorem upd_other {α} (f : Nat → α) {i x : Nat} (v : α) (h : x ≠ i) : upd f i v x = f x := by simp [upd, h]
theorem upd_apply {α} (f : Nat → α) (i x : Nat) (v : α) : upd f i v x = if x = i then v else f x := rfl
@[simp] theorem upd_upd {α} (f : Nat → α) (i : Nat) (v w : α) : upd (upd f i v) i w = upd f i w := by
  funext x; simp only [upd]; split <;> rfl

/-! ### primitives on explicit states -/

theorem getObj_some {p : Pool} {o : Nat} {b : Buf} (h : p.objs o = some b) : getObj o p = .ok b p := by
  simp [getObj, h]

theorem setObj_eq (o : Nat) (b : Buf) (p : Pool) :
    setObj o b p = .ok () { p with objs := upd p.objs o (some b) } := rfl

theorem dropObj_eq (o : Nat) (p : Pool) :
    dropObj o p = .ok () { p with objs := upd p.objs o none } := rfl

theorem newBlock_ok {p : Pool} (n : Nat) (h : p.failAt ≠ some (p.allocs + 1)) :
    newBlock n p = .ok (.heap p.next)
      { p with heap := upd p.heap p.next (some (List.replicate n 0xCD)), next := p.next + 1, allocs := p.allocs + 1 } := by
  simp [newBlock, h]; rfl

theorem newBlock_throw {p : Pool} (n : Nat) (h : p.failAt = some (p.allocs + 1)) :
    newBlock n p = .throw .badAlloc { p with allocs := p.allocs + 1 } := by
  simp [newBlock, h]

theorem deleteBlock_some {p : Pool} {k : Nat} {blk : List Nat} (h : p.heap k = some blk) :
    deleteBlock (.heap k) p = .ok () { p with heap := upd p.heap k none } := by
  simp [deleteBlock, h]; rfl

theorem readUnits_heap {p : Pool} {k n : Nat} {blk : List Nat} (h : p.heap k = some blk) (hn : n ≤ blk.length) :
    readUnits (.heap k) n p = .ok (blk.take n) p := by
  simp [readUnits, h, hn]

theorem readUnits_loc {p : Pool} {o n : Nat} {b : Buf} (h : p.objs o = some b) (hn : n ≤ b.data.length) :
    readUnits (.loc o) n p = .ok (b.data.take n) p := by
  simp [readUnits, h, hn]

theorem writeUnits_heap {p : Pool} {k a : Nat} {us blk : List Nat} (h : p.heap k = some blk)
    (hn : a + us.length ≤ blk.length) :
    writeUnits (.heap k) a us p = .ok () { p with heap := upd p.heap k (some (overwrite blk a us)) } := by
  simp [writeUnits, h, hn]; rfl

theorem writeUnits_loc {p : Pool} {o a : Nat} {us : List Nat} {b : Buf} (h : p.objs o = some b)
    (hn : a + us.length ≤ b.data.length) :
    writeUnits (.loc o) a us p = .ok () { p with objs := upd p.objs o (some { b with data := overwrite b.data a us }) } := by
  simp [writeUnits, h, hn]; rfl

/-! ### `overwrite` -/

theorem length_overwrite {blk us : List Nat} {a : Nat} (h : a + us.length ≤ blk.length) :
    (overwrite blk a us).length = blk.length := by
  simp [overwrite]; omega

theorem getElem?_overwrite_lt {blk us : List Nat} {a i : Nat} (h : a ≤ blk.length) (hi : i < a) :
    (overwrite blk a us)[i]? = blk[i]? := by
  simp [overwrite]; grind

theorem getElem?_overwrite_mid {blk us : List Nat} {a j : Nat} (h : a ≤ blk.length) (hj : j < us.length) :
    (overwrite blk a us)[a + j]? = us[j]? := by
  simp [overwrite]; grind

theorem getElem?_overwrite_ge {blk us : List Nat} {a i : Nat} (h : a + us.length ≤ blk.length)
    (hi : a + us.length ≤ i) : (overwrite blk a us)[i]? = blk[i]? := by
  simp [overwrite]; grind

theorem getElem?_overwrite_term {blk : List Nat} {n v : Nat} (h : n < blk.length) :
    (overwrite blk n [v])[n]? = some v := by
  have := getElem?_overwrite_mid (blk := blk) (us := [v]) (a := n) (j := 0) (by omega) (by simp)
  simpa using this

theorem take_overwrite_zero {blk us : List Nat} : (overwrite blk 0 us).take us.length = us := by
  simp [overwrite]

theorem take_overwrite_term {blk : List Nat} {n : Nat} (h : n ≤ blk.length) (v : Nat) :
    (overwrite blk n [v]).take n = blk.take n := by
  simp [overwrite]; grind

/-- storing inside the first `m` units commutes with taking the first `m` units -/
theorem take_overwrite_within {blk us : List Nat} {a m : Nat} (h : a + us.length ≤ m) (hm : m ≤ blk.length) :
    (overwrite blk a us).take m = overwrite (blk.take m) a us := by
  apply List.ext_getElem?
  intro i
  simp only [overwrite]
  grind

@[simp] theorem length_zeros (n : Nat) : (zeros n).length = n := by simp [zeros]
theorem getElem?_zeros {n i : Nat} (h : i < n) : (zeros n)[i]? = some 0 := by simp [zeros, h]

end StVerif.Pool
