/-
  Helper lemmas about the per-argument formatters (C10: which outcomes they can have;
  C11: what they emit).
-/
import StVerif.Lemmas.FmtParse
import StVerif.Lemmas.UtfRef

namespace StVerif.Lemmas.Fmt
open StVerif StVerif.Fmt

theorem radixOf_isSome {c : DigitClass} (h : c ≠ .chr) : ∃ r u, radixOf c = some (r, u) := by
  cases c <;> simp [radixOf] at h ⊢

theorem formatNumericS_ok (f : FormatSpec) (v : Int) (h : f.digitClass ≠ .chr) : ∃ ev, formatNumericS f v = .ok ev := by
  obtain ⟨r, u, hr⟩ := radixOf_isSome h
  simp [formatNumericS, hr]

theorem formatNumericU_ok (f : FormatSpec) (v : Nat) (h : f.digitClass ≠ .chr) : ∃ ev, formatNumericU f v = .ok ev := by
  obtain ⟨r, u, hr⟩ := radixOf_isSome h
  simp [formatNumericU, hr]

/-- `format_char` asserts exactly when a width or a pad character was given -/
theorem formatChar_cases (f : FormatSpec) (ch : Int) :
    ((f.minimumLength ≠ 0 ∨ f.pad ≠ 0) ∧ formatChar f ch = .assertFail charPaddingMsg) ∨
    (¬(f.minimumLength ≠ 0 ∨ f.pad ≠ 0) ∧ ∃ ev, formatChar f ch = .ok ev) := by
  unfold formatChar
  by_cases h : f.minimumLength ≠ 0 ∨ f.pad ≠ 0
  · exact Or.inl ⟨h, by simp only [h, if_true]⟩
  · refine Or.inr ⟨h, ?_⟩
    simp only [h, if_false]
    cases Utf.writeUtf8 (wrapW 32 ch) <;> simp

/-- assertions a formatter can raise -/
def AssertClass (w : String) : Prop :=
  w = charPaddingMsg ∨ w = libcSizeMsg

/-- building the `ST::string` of a wide-text argument (units in the range of their type, below the
    documented size limit) yields its bytes or `unicode_error` — never `oob`, `ub`, an assertion -/
theorem wide_stringFrom_cases (src : Utf.Enc) (m : Mode) (us : List Nat) (hw : (Arg.wide src m us).WideOk) :
    (∃ bs, Utf.stringFrom src m (some us) = .ok bs) ∨
      Utf.stringFrom src m (some us) = .throw .unicodeError := by
  obtain ⟨hsrc, hlen⟩ := hw
  rcases hsrc with ⟨rfl, hu⟩ | ⟨rfl, hu⟩
  · have := StVerif.Lemmas.Utf.convert_eq_reference .utf16 .utf8 (by decide) m true us hu hlen
    simp only [Utf.stringFrom, this, Spec.Unicode.reference]
    cases Spec.Unicode.refSteps .utf16 .utf8 m true (Spec.Unicode.seg .utf16 us) with
    | some out => exact Or.inl ⟨out, rfl⟩
    | none => exact Or.inr rfl
  · have := StVerif.Lemmas.Utf.convert_eq_reference .utf32 .utf8 (by decide) m true us hu hlen
    simp only [Utf.stringFrom, this, Spec.Unicode.reference]
    cases Spec.Unicode.refSteps .utf32 .utf8 m true (Spec.Unicode.seg .utf32 us) with
    | some out => exact Or.inl ⟨out, rfl⟩
    | none => exact Or.inr rfl

/-- every non-floating formatter returns output, the char-padding assertion or — wide text that the
    default validation rejects — `unicode_error`; the floating-point formatter is a parameter of the
    statement -/
theorem formatType_sat_core (a : Arg) (f : FormatSpec) (E : Exc → Prop) (A : String → Prop) (hE : E .unicodeError)
    (hcp : A charPaddingMsg) (hw : a.WideOk)
    (hfloat : ∀ r, a = .float r → Sat (fun _ => True) E A (formatFloat f r)) :
    Sat (fun _ => True) E A (formatType a f) := by
  have hc : ∀ ch, Sat (fun _ => True) E A (formatChar f ch) := by
    intro ch
    rcases formatChar_cases f ch with ⟨_, h⟩ | ⟨_, ev, h⟩ <;> rw [h] <;> simp [Sat, hcp]
  have hs : ∀ v, f.digitClass ≠ .chr → Sat (fun _ => True) E A (formatNumericS f v) := by
    intro v h; obtain ⟨ev, he⟩ := formatNumericS_ok f v h; rw [he]; trivial
  have hu : ∀ v, f.digitClass ≠ .chr → Sat (fun _ => True) E A (formatNumericU f v) := by
    intro v h; obtain ⟨ev, he⟩ := formatNumericU_ok f v h; rw [he]; trivial
  cases a with
  | sint w v => simp only [formatType]; split; exact hc _; exact hs _ ‹_›
  | uint w v => simp only [formatType]; split; exact hc _; exact hu _ ‹_›
  | char v => simp only [formatType]; split; exact hc _; exact hs _ ‹_›
  | wchar v => simp only [formatType]; split; exact hc _; exact hs _ ‹_›
  | char16 v => simp only [formatType]; split; exact hc _; exact hu _ ‹_›
  | char32 v => simp only [formatType]; split; exact hc _; exact hu _ ‹_›
  | char8 v =>
    simp only [formatType]
    split
    · split <;> simp [Sat, hcp]
    · exact hu _ ‹_›
  | bool b => simp [formatType, Sat]
  | str bs => simp [formatType, Sat]
  | nullStr => simp [formatType, Sat]
  | wide src m us =>
    simp only [formatType]
    rcases wide_stringFrom_cases src m us hw with ⟨bs, h⟩ | h <;> rw [h] <;> simp [Outcome.bind, Sat, hE]
  | float r => simp only [formatType]; exact hfloat r rfl

/-- every formatter returns output, `unicode_error` (wide text only) or one of two assertion
    messages; never `ub`, `oob`, `stuck` -/
theorem formatType_sat_all (a : Arg) (f : FormatSpec) (hw : a.WideOk) :
    Sat (fun _ => True) (· = .unicodeError) AssertClass (formatType a f) := by
  refine formatType_sat_core a f _ AssertClass rfl (Or.inl rfl) hw ?_
  intro r _
  simp only [formatFloat]
  repeat' split
  all_goals simp [Sat, AssertClass]

/-- when libc reports a size for every rendering (of whatever length), the only assertion left is
    the documented one -/
theorem formatType_sat (a : Arg) (f : FormatSpec) (hfl : a.LibcRenders) (hw : a.WideOk) :
    Sat (fun _ => True) (· = .unicodeError) (· = charPaddingMsg) (formatType a f) := by
  refine formatType_sat_core a f _ _ rfl rfl hw ?_
  intro r hr
  subst hr
  have h := hfl f.alwaysSigned (if f.precision ≥ 0 then some f.precision.toNat else none) f.floatClass
  simp only [formatFloat]
  rw [if_neg (by omega)]
  repeat' split
  all_goals simp [Sat]

/-- the documented assertion is raised exactly when the character class meets a width or a pad
    character on an integer or character argument -/
theorem formatType_assert_iff (a : Arg) (f : FormatSpec) (hfl : a.LibcRenders) (hw : a.WideOk) :
    (∃ w, formatType a f = .assertFail w) ↔
      (a.IsIntegral = true ∧ f.digitClass = .chr ∧ (f.minimumLength ≠ 0 ∨ f.pad ≠ 0)) := by
  have hc : ∀ ch, (∃ w, formatChar f ch = .assertFail w) ↔ (f.minimumLength ≠ 0 ∨ f.pad ≠ 0) := by
    intro ch
    rcases formatChar_cases f ch with ⟨h1, h⟩ | ⟨h1, ev, h⟩ <;> rw [h] <;> simp [h1]
  have hs : ∀ v, f.digitClass ≠ .chr → ¬ ∃ w, formatNumericS f v = .assertFail w := by
    intro v h; obtain ⟨ev, he⟩ := formatNumericS_ok f v h; rw [he]; simp
  have hu : ∀ v, f.digitClass ≠ .chr → ¬ ∃ w, formatNumericU f v = .assertFail w := by
    intro v h; obtain ⟨ev, he⟩ := formatNumericU_ok f v h; rw [he]; simp
  cases a with
  | sint w v => simp only [formatType, Arg.IsIntegral]; split <;> rename_i hd; simp [hc, hd]; simp [hs _ hd, hd]
  | uint w v => simp only [formatType, Arg.IsIntegral]; split <;> rename_i hd; simp [hc, hd]; simp [hu _ hd, hd]
  | char v => simp only [formatType, Arg.IsIntegral]; split <;> rename_i hd; simp [hc, hd]; simp [hs _ hd, hd]
  | wchar v => simp only [formatType, Arg.IsIntegral]; split <;> rename_i hd; simp [hc, hd]; simp [hs _ hd, hd]
  | char16 v => simp only [formatType, Arg.IsIntegral]; split <;> rename_i hd; simp [hc, hd]; simp [hu _ hd, hd]
  | char32 v => simp only [formatType, Arg.IsIntegral]; split <;> rename_i hd; simp [hc, hd]; simp [hu _ hd, hd]
  | char8 v =>
    simp only [formatType, Arg.IsIntegral]
    split <;> rename_i hd
    · split <;> rename_i hp <;> simp [hd, hp]
    · simp [hu _ hd, hd]
  | bool b => simp [formatType, Arg.IsIntegral]
  | str bs => simp [formatType, Arg.IsIntegral]
  | nullStr => simp [formatType, Arg.IsIntegral]
  | wide src m us =>
    simp only [formatType, Arg.IsIntegral]
    rcases wide_stringFrom_cases src m us hw with ⟨bs, h⟩ | h <;> rw [h] <;> simp [Outcome.bind]
  | float r =>
    have h := hfl f.alwaysSigned (if f.precision ≥ 0 then some f.precision.toNat else none) f.floatClass
    simp only [formatType, formatFloat, Arg.IsIntegral]
    rw [if_neg (by omega)]
    repeat' split
    all_goals simp

theorem formattersOf_ok (args : List Arg) (E : Exc → Prop) (A : FormatSpec → String → Prop)
    (h : ∀ a ∈ args, ∀ f, Sat (fun _ => True) E (A f) (formatType a f)) :
    FormattersOk args.length (formattersOf args) E A := by
  intro id spec hid
  simp only [formattersOf, List.getElem?_eq_getElem hid]
  exact h _ (List.getElem_mem hid) spec

end StVerif.Lemmas.Fmt

namespace StVerif.Lemmas.Fmt
open StVerif StVerif.Fmt StVerif.Utf StVerif.Generated

/-- Latin-1 → UTF-8 never fails and stores exactly what it measured (no assumption on the bytes) -/
theorem fill_latin1 (m : Mode) (sb : Bool) (xs : List Nat) :
    (fill (stepCh .latin1 .utf8 m sb) xs).status = .done ∧
    (fill (stepCh .latin1 .utf8 m sb) xs).out.length = (xs.map (measureCh .latin1 .utf8)).sum := by
  induction xs with
  | nil => simp [fill]
  | cons c r ih =>
    by_cases h : c &&& 0x80 ≠ 0
    · have hs : stepCh .latin1 .utf8 m sb c = .units [0xC0 ||| ((c >>> 6) &&& 0x1F), 0x80 ||| (c &&& 0x3F)] := by
        simp [stepCh, h]
      have hm : measureCh .latin1 .utf8 c = 2 := by simp [measureCh, h]
      simp only [fill, hs, List.map_cons, List.sum_cons, hm, List.length_append, List.length_cons, List.length_nil]
      exact ⟨ih.1, by rw [ih.2]⟩
    · have hs : stepCh .latin1 .utf8 m sb c = .units [c] := by simp [stepCh, h]
      have hm : measureCh .latin1 .utf8 c = 1 := by simp [measureCh, h]
      simp only [fill, hs, List.map_cons, List.sum_cons, hm, List.length_append, List.length_cons, List.length_nil]
      exact ⟨ih.1, by rw [ih.2]⟩

/-- `string_stream::to_string(false, …)` (the Latin-1 entry point): the text, or the documented
    size limit -/
theorem toString_latin1_sat (bytes : List Nat) :
    Sat (fun _ => True) (fun _ => False) (fun w => w = "String data buffer is too large" ∧ bytes.length ≥ hugeBufferSize)
      (toStringOf .latin1 bytes) := by
  simp only [toStringOf, convert]
  split
  · rename_i h; exact ⟨rfl, h⟩
  · split
    · trivial
    · have hf := fill_latin1 .assumeValid true bytes
      simp only [decode, Utf.measure] at hf ⊢
      simp only [hf.1, hf.2, Nat.lt_irrefl, gt_iff_lt, if_false, if_true]
      trivial

end StVerif.Lemmas.Fmt
