/-
  Helper lemmas for C17's `chunkSafe_of_ascii_pad_and_valid_args`: when is the event list of a
  format call chunk-safe.  Field level (every `format_type` overload) and parser level (the
  literal scanner cuts the format string only at braces and at its end; a field ends behind its
  closing brace), then the `apply_format` loop.
-/
import StVerif.Lemmas.Sinks
import StVerif.Lemmas.FmtParse
import StVerif.Lemmas.FmtSpec
import StVerif.Lemmas.FmtGrammar

namespace StVerif.Lemmas.Sinks
open StVerif StVerif.Fmt StVerif.Utf StVerif.Sinks StVerif.Generated
open StVerif.Spec.Unicode
open StVerif.Lemmas.Utf StVerif.Lemmas.Utf8Split StVerif.Lemmas.Fmt

/-! ### ASCII and validity -/

def Ascii (l : List Nat) : Prop := ∀ b ∈ l, b < 0x80

theorem valid_of_ascii (l : List Nat) (h : Ascii l) : Valid l := by
  induction l with
  | nil => exact Valid.nil
  | cons b r ih => exact Valid.c1 b r (h b (by simp)) (ih (fun x hx => h x (by simp [hx])))

theorem ascii_not_cont {b : Nat} (h : b < 0x80) : ¬ Cont b := by
  intro hc; have := cont_ge b hc; omega

theorem valid_tail_ascii (c : Nat) (r : List Nat) (h : Valid (c :: r)) (hc : c < 0x80) : Valid r := by
  cases h with
  | c1 _ _ _ hr => exact hr
  | c2 _ _ _ hl _ _ => exact absurd hc hl.1
  | c3 _ _ _ _ hl _ _ _ => exact absurd hc hl.1
  | c4 _ _ _ _ _ hl _ _ _ _ => exact absurd hc hl.1

theorem chunkSafe_append (a b : List Event) : chunkSafe (a ++ b) = (chunkSafe a && chunkSafe b) := by
  simp [chunkSafe]

theorem chunkSafe_nil : chunkSafe [] = true := rfl

theorem chunkSafe_cons' (e : Event) (l : List Event) : chunkSafe (e :: l) = (chunkOk e && chunkSafe l) := by
  simp [chunkSafe]

theorem chunkOk_append_valid (bs : List Nat) (h : Valid bs) : chunkOk (.append bs) = true := by
  simp [chunkOk, validate_of_valid bs h]

theorem chunkOk_char_ascii (c n : Nat) (h : c < 0x80) : chunkOk (.appendChar c n) = true := by
  simp [chunkOk, h]

/-! ### digits -/

theorem digitChar_ascii (d : Nat) (u : Bool) (h : d < 36) : digitChar d u < 0x80 := by
  unfold digitChar
  split
  · omega
  · split <;> omega

theorem uintLoop_ascii (r : Nat) (u : Bool) (hr : r ≤ 36) (v : Nat) (acc : List Nat) (ha : Ascii acc) : Ascii (uintLoop r u v acc) := by
  fun_induction uintLoop r u v acc with
  | case1 v acc h => exact ha
  | case2 v acc h ih =>
    apply ih
    intro b hb
    simp only [List.mem_cons] at hb
    rcases hb with rfl | hb
    · exact digitChar_ascii _ u (by have := Nat.mod_lt v (show r > 0 by omega); omega)
    · exact ha b hb

theorem uintFormat_ascii (v r : Nat) (u : Bool) (hr : r ≤ 36) : Ascii (uintFormat v r u) := by
  unfold uintFormat
  split
  · intro b hb; simp at hb; omega
  · exact uintLoop_ascii r u hr v [] (fun b hb => by simp at hb)

theorem radixOf_le {c : DigitClass} {r : Nat} {u : Bool} (h : Fmt.radixOf c = some (r, u)) : r ≤ 36 := by
  cases c <;> simp [Fmt.radixOf] at h <;> omega

/-! ### the formatters -/

theorem numericPrefix_safe (f : FormatSpec) (nt : NumType) : chunkSafe (numericPrefix f nt) = true := by
  unfold numericPrefix
  rw [chunkSafe_append]
  have h1 : chunkSafe (if nt = .negative then [Event.appendChar 45 1] else if f.alwaysSigned then [.appendChar 43 1] else []) = true := by
    split
    · decide
    · split <;> decide
  rw [h1, Bool.true_and]
  split
  · cases f.digitClass <;> decide
  · rfl

theorem formatNumericString_safe (f : FormatSpec) (hp : padOf f < 0x80) (text : List Nat) (ht : Ascii text) (nt : NumType) :
    chunkSafe (formatNumericString f text nt) = true := by
  have htx : chunkOk (.append text) = true := chunkOk_append_valid text (valid_of_ascii text ht)
  have hpd : ∀ n, chunkOk (.appendChar (padOf f) n) = true := fun n => chunkOk_char_ascii _ n hp
  have hpre := numericPrefix_safe f nt
  unfold formatNumericString
  dsimp only
  repeat' split
  all_goals simp [chunkSafe_append, chunkSafe_cons', chunkSafe_nil, hpre, htx, hpd]

theorem formatNumericS_safe (f : FormatSpec) (hp : padOf f < 0x80) (v : Int) (ev : List Event) (h : formatNumericS f v = .ok ev) :
    chunkSafe ev = true := by
  unfold formatNumericS at h
  split at h
  · cases h
  · rename_i r u hr
    injection h with h; subst h
    exact formatNumericString_safe f hp _ (uintFormat_ascii _ r u (radixOf_le hr)) _

theorem formatNumericU_safe (f : FormatSpec) (hp : padOf f < 0x80) (v : Nat) (ev : List Event) (h : formatNumericU f v = .ok ev) :
    chunkSafe ev = true := by
  unfold formatNumericU at h
  split at h
  · cases h
  · rename_i r u hr
    injection h with h; subst h
    exact formatNumericString_safe f hp _ (uintFormat_ascii _ r u (radixOf_le hr)) _

/-- the standard UTF-8 encoding of a value is one sequence -/
theorem encUtf8_valid (c : Nat) (hc : c < 0x200000) : Valid (encUtf8 c) := by
  apply valid_of_validate
  rw [validate_iff_seg _ (encUtf8_bytes c hc)]
  have := segUtf8_enc c hc []
  rw [List.append_nil] at this
  rw [this]
  simp [segUtf8, Seg.isGood]

theorem formatChar_safe (f : FormatSpec) (ch : Int) (ev : List Event) (h : formatChar f ch = .ok ev) : chunkSafe ev = true := by
  unfold formatChar at h
  split at h
  · cases h
  · cases hw : writeUtf8 (wrapW 32 ch) with
    | none =>
      rw [hw] at h; simp only at h
      injection h with h; subst h
      decide
    | some bs =>
      rw [hw] at h; simp only at h
      injection h with h; subst h
      have hle : wrapW 32 ch ≤ 0x10FFFF := by
        by_cases q : wrapW 32 ch ≤ 0x10FFFF
        · exact q
        · rw [writeUtf8_none _ (by omega)] at hw; cases hw
      rw [writeUtf8_eq _ hle] at hw
      injection hw with hw; subst hw
      have hv := encUtf8_valid (wrapW 32 ch) (by omega)
      simp [chunkSafe_cons', chunkSafe_nil, chunkOk_append_valid _ hv]

/-- the length `format_string` cuts the text to -/
def cutSize (f : FormatSpec) (n : Nat) : Nat :=
  if f.precision ≥ 0 ∧ n > wrap64 f.precision then wrap64 f.precision else n

theorem formatString_safe (f : FormatSpec) (hp : padOf f < 0x80) (text : List Nat)
    (hv : Valid (text.take (cutSize f text.length))) : chunkSafe (formatString f text) = true := by
  have hpd : ∀ n, chunkOk (.appendChar (padOf f) n) = true := fun n => chunkOk_char_ascii _ n hp
  unfold formatString
  dsimp only
  unfold cutSize at hv
  generalize (if f.precision ≥ 0 ∧ text.length > wrap64 f.precision then wrap64 f.precision else text.length) = sz at hv
  have htx : chunkOk (.append (text.take sz)) = true := chunkOk_append_valid _ hv
  repeat' split
  all_goals simp [chunkSafe_cons', chunkSafe_nil, htx, hpd]

theorem ascii_take {l : List Nat} (h : Ascii l) (n : Nat) : Ascii (l.take n) :=
  fun b hb => h b (List.mem_of_mem_take hb)

theorem formatFloat_safe (f : FormatSpec) (hp : padOf f < 0x80) (r : Bool → Option Nat → FloatClass → List Nat)
    (hr : ∀ plus prec cls, Ascii (r plus prec cls)) (ev : List Event) (h : formatFloat f r = .ok ev) : chunkSafe ev = true := by
  have hpd : ∀ n, chunkOk (.appendChar (padOf f) n) = true := fun n => chunkOk_char_ascii _ n hp
  unfold formatFloat at h
  dsimp only at h
  have ht := hr f.alwaysSigned (if f.precision ≥ 0 then some f.precision.toNat else none) f.floatClass
  generalize r f.alwaysSigned (if f.precision ≥ 0 then some f.precision.toNat else none) f.floatClass = text at h ht
  have htx : chunkOk (.append text) = true := chunkOk_append_valid _ (valid_of_ascii _ ht)
  repeat' split at h
  all_goals first
    | (cases h; done)
    | (injection h with h; subst h; simp [chunkSafe_cons', chunkSafe_nil, htx, hpd])

/-- what an argument has to satisfy under a field spec for its events to be chunk-safe: text cut
    by the precision ends at a character boundary, a `char8_t` printed as a character is ASCII,
    libc's floating-point text is ASCII; integers, characters and booleans always qualify -/
def ArgSafe (f : FormatSpec) : Arg → Prop
  | .str bs => Valid (bs.take (cutSize f bs.length))
  | .char8 v => f.digitClass = .chr → v < 0x80
  | .float r => ∀ plus prec cls, Ascii (r plus prec cls)
  | .wide src m us => ∀ bs, Utf.stringFrom src m (some us) = .ok bs → Valid (bs.take (cutSize f bs.length))
  | _ => True

theorem formatType_safe (a : Arg) (f : FormatSpec) (hp : padOf f < 0x80) (ha : ArgSafe f a) (ev : List Event)
    (h : formatType a f = .ok ev) : chunkSafe ev = true := by
  cases a with
  | sint w v => simp only [formatType] at h; split at h; exact formatChar_safe f _ ev h; exact formatNumericS_safe f hp _ ev h
  | uint w v => simp only [formatType] at h; split at h; exact formatChar_safe f _ ev h; exact formatNumericU_safe f hp _ ev h
  | char v => simp only [formatType] at h; split at h; exact formatChar_safe f _ ev h; exact formatNumericS_safe f hp _ ev h
  | wchar v => simp only [formatType] at h; split at h; exact formatChar_safe f _ ev h; exact formatNumericS_safe f hp _ ev h
  | char16 v => simp only [formatType] at h; split at h; exact formatChar_safe f _ ev h; exact formatNumericU_safe f hp _ ev h
  | char32 v => simp only [formatType] at h; split at h; exact formatChar_safe f _ ev h; exact formatNumericU_safe f hp _ ev h
  | char8 v =>
    simp only [formatType] at h
    split at h
    · rename_i hc
      split at h
      · cases h
      · injection h with h; subst h
        simp [chunkSafe_cons', chunkSafe_nil, chunkOk_char_ascii v 1 (ha hc)]
    · exact formatNumericU_safe f hp _ ev h
  | bool b =>
    simp only [formatType] at h
    injection h with h; subst h
    apply formatString_safe f hp
    apply valid_of_ascii
    apply ascii_take
    cases b <;> (intro x hx; simp at hx; omega)
  | str bs =>
    simp only [formatType] at h
    injection h with h; subst h
    exact formatString_safe f hp bs ha
  | nullStr => simp only [formatType] at h; injection h with h; subst h; rfl
  | wide src m us =>
    simp only [formatType] at h
    cases hc : Utf.stringFrom src m (some us) with
    | ok bs =>
      rw [hc] at h
      simp only [Outcome.bind] at h
      injection h with h; subst h
      exact formatString_safe f hp bs (ha bs hc)
    | _ => rw [hc] at h; simp [Outcome.bind] at h
  | float r => simp only [formatType] at h; exact formatFloat_safe f hp r ha ev h

/-! ### positions of the format string at which text may be cut -/

theorem rd_getElem {fmt : List Nat} {i c : Nat} (h : rd fmt i = some c) (b : Nat) (hb : fmt[i]? = some b) : b = c := by
  unfold rd at h
  by_cases hl : i < fmt.length
  · simp only [hl, if_true] at h
    injection h with h
    rw [List.getD_eq_getElem?_getD, hb] at h
    exact h
  · rw [List.getElem?_eq_none (by omega)] at hb; cases hb

/-- behind a well-formed suffix, the text up to an ASCII byte (or the end) and the text from
    there on are well-formed -/
theorem slice_valid (fmt : List Nat) (m nx : Nat) (hv : Valid (fmt.drop m)) (hm : m ≤ nx)
    (ha : ∀ b, fmt[nx]? = some b → b < 0x80) : Valid (slice fmt m nx) ∧ Valid (fmt.drop nx) := by
  have h := valid_cut (fmt.drop m) hv (nx - m) (fun b hb => ascii_not_cont (ha b (by
    rw [List.getElem?_drop, show m + (nx - m) = nx by omega] at hb; exact hb)))
  rw [List.drop_drop, show m + (nx - m) = nx by omega] at h
  exact h

/-- …and behind that ASCII byte -/
theorem valid_drop_succ (fmt : List Nat) (nx c : Nat) (hv : Valid (fmt.drop nx)) (hr : rd fmt nx = some c) (hc0 : c ≠ 0) (hc : c < 0x80) :
    Valid (fmt.drop (nx + 1)) := by
  have hlt := lt_of_rd_ne_zero hr hc0
  have hd := drop_cons_of_lt hlt
  rw [rd_of_lt hlt] at hr; injection hr with hr
  rw [hd, hr] at hv
  exact valid_tail_ascii c _ hv hc

/-! ### the literal scanner emits well-formed chunks -/

/-- invariant of `fetch_prefix`'s loop: the pending run starts at a character boundary and
    everything emitted so far is chunk-safe -/
def FInv (fmt : List Nat) (s : FState) : Prop :=
  s.m ≤ s.next ∧ s.next ≤ fmt.length ∧ Valid (fmt.drop s.m) ∧ chunkSafe s.out = true

def FStepInv (fmt : List Nat) : Outcome FStep → Prop
  | .ok (.cont s') => FInv fmt s'
  | _ => True

theorem fetchStep_inv (fmt : List Nat) (s : FState) (hi : FInv fmt s) : FStepInv fmt (fetchStep fmt s) := by
  obtain ⟨hm, hn, hv, ho⟩ := hi
  have hok := fetchStep_ok fmt s hn
  revert hok
  unfold fetchStep
  cases hr : rd fmt s.next with
  | none => intro _; trivial
  | some c =>
    dsimp only
    have hcut : c < 0x80 → Valid (slice fmt s.m s.next) ∧ Valid (fmt.drop s.next) := fun hc =>
      slice_valid fmt s.m s.next hv hm (fun b hb => by rw [rd_getElem hr b hb]; exact hc)
    intro hok
    by_cases h0 : c = 0
    · rw [if_pos h0]; trivial
    · rw [if_neg h0] at hok ⊢
      by_cases h123 : c = 123
      · rw [if_pos h123] at hok ⊢
        subst h123
        cases hr1 : rd fmt (s.next + 1) with
        | none => trivial
        | some c1 =>
          rw [hr1] at hok
          dsimp only at hok ⊢
          by_cases hc1 : c1 ≠ 123
          · rw [if_pos hc1]; trivial
          · rw [if_neg hc1] at hok ⊢
            simp only [FStepOk] at hok
            simp only [FStepInv, FInv]
            have hc := hcut (by decide)
            refine ⟨by omega, hok.2, valid_drop_succ fmt s.next 123 hc.2 hr (by decide) (by decide), ?_⟩
            rw [chunkSafe_cons', ho, chunkOk_append_valid _ hc.1]; rfl
      · rw [if_neg h123] at hok ⊢
        by_cases h125 : c = 125
        · rw [if_pos h125] at hok ⊢
          subst h125
          cases hr1 : rd fmt (s.next + 1) with
          | none => trivial
          | some c1 =>
            rw [hr1] at hok
            dsimp only at hok ⊢
            by_cases hc1 : c1 = 125
            · rw [if_pos hc1] at hok ⊢
              simp only [FStepOk] at hok
              simp only [FStepInv, FInv]
              have hc := hcut (by decide)
              refine ⟨by omega, hok.2, valid_drop_succ fmt s.next 125 hc.2 hr (by decide) (by decide), ?_⟩
              rw [chunkSafe_cons', ho, chunkOk_append_valid _ hc.1]; rfl
            · rw [if_neg hc1] at hok ⊢
              simp only [FStepOk] at hok
              simp only [FStepInv, FInv]
              exact ⟨by omega, hok.2, hv, ho⟩
        · rw [if_neg h125] at hok ⊢
          simp only [FStepOk] at hok
          simp only [FStepInv, FInv]
          exact ⟨by omega, hok.2, hv, ho⟩

def FLoopInv (fmt : List Nat) : Outcome FState → Prop
  | .ok s' => FInv fmt s'
  | _ => True

theorem fetchLoop_inv (fmt : List Nat) (s : FState) (hi : FInv fmt s) : FLoopInv fmt (fetchLoop fmt s) := by
  fun_induction fetchLoop fmt s with
  | case1 s s' hs =>
    have := fetchStep_ok fmt s hi.2.1; rw [hs] at this; simp only [FStepOk] at this
    obtain ⟨rfl, _⟩ := this
    exact hi
  | case2 s s' hs hg ih =>
    have := fetchStep_inv fmt s hi; rw [hs] at this
    exact ih this
  | case3 => trivial
  | case4 => trivial
  | case5 => trivial
  | case6 => trivial
  | case7 => trivial
  | case8 => trivial

/-- `fetch_prefix` started at a character boundary: every chunk it emits is well-formed and it
    stops at a character boundary -/
theorem fetchPrefix_safe (fmt : List Nat) (pos : Nat) (hp : pos ≤ fmt.length) (hv : Valid (fmt.drop pos))
    (ev : List Event) (p c : Nat) (h : fetchPrefix fmt pos = .ok (ev, p, c)) :
    chunkSafe ev = true ∧ Valid (fmt.drop p) := by
  have hinv := fetchLoop_inv fmt { m := pos, next := pos, out := [] } ⟨Nat.le_refl _, hp, hv, rfl⟩
  have hsat := fetchLoop_sat fmt { m := pos, next := pos, out := [] } hp
  unfold fetchPrefix at h
  cases hl : fetchLoop fmt { m := pos, next := pos, out := [] } with
  | ok s' =>
    rw [hl] at h hinv hsat
    simp only [FLoopInv, FInv] at hinv
    simp only [Sat] at hsat
    obtain ⟨hm, hn, hvm, ho⟩ := hinv
    obtain ⟨_, _, c', hc', h01⟩ := hsat
    simp only [Outcome.bind, hc'] at h
    injection h with h
    injection h with h1 h2
    injection h2 with h2 h3
    subst h2
    have hc : c' < 0x80 := by rcases h01 with rfl | rfl <;> decide
    have hcut := slice_valid fmt s'.m s'.next hvm hm (fun b hb => by rw [rd_getElem hc' b hb]; exact hc)
    refine ⟨?_, hcut.2⟩
    rw [← h1]
    have hrev : ∀ l : List Event, chunkSafe l.reverse = chunkSafe l := by
      intro l; simp [chunkSafe]
    rw [hrev]
    split
    · rw [chunkSafe_cons', ho, chunkOk_append_valid _ hcut.1]; rfl
    · exact ho
  | _ => rw [hl] at h; simp [Outcome.bind] at h

theorem nextFormat_safe (fmt : List Nat) (pos : Nat) (hp : pos ≤ fmt.length) (hv : Valid (fmt.drop pos))
    (ev : List Event) (p : Nat) (more : Bool) (h : nextFormat fmt pos = .ok (ev, p, more)) :
    chunkSafe ev = true ∧ Valid (fmt.drop p) := by
  unfold nextFormat at h
  cases hf : fetchPrefix fmt pos with
  | ok r =>
    obtain ⟨ev', p', c⟩ := r
    rw [hf] at h
    simp only [Outcome.bind] at h
    have := fetchPrefix_safe fmt pos hp hv ev' p' c hf
    split at h
    · injection h with h; injection h with h1 h2; injection h2 with h2 _; subst h1; subst h2; exact this
    · split at h
      · injection h with h; injection h with h1 h2; injection h2 with h2 _; subst h1; subst h2; exact this
      · cases h
  | _ => rw [hf] at h; simp [Outcome.bind] at h

/-! ### a field ends behind its closing brace -/

def DoneRel (fmt : List Nat) (pos : Nat) : Outcome PStep → Prop
  | .ok (.done _ np) => np = pos + 2 ∧ rd fmt (pos + 1) = some 125
  | _ => True

theorem parseStep_doneRel (fmt : List Nat) (pos : Nat) (spec : FormatSpec) : DoneRel fmt pos (parseStep fmt pos spec) := by
  unfold parseStep
  dsimp only
  cases hr : rd fmt (pos + 1) with
  | none => trivial
  | some c =>
    dsimp only
    cases hr1 : rd fmt (pos + 1 + 1) with
    | none =>
      simp only [apply_ite (DoneRel fmt pos)]
      repeat' (apply ite_prop <;> intro _)
      all_goals first
        | trivial
        | (subst_vars; exact ⟨rfl, hr⟩)
    | some c1 =>
      simp only [apply_ite (DoneRel fmt pos)]
      repeat' (apply ite_prop <;> intro _)
      all_goals first
        | trivial
        | (subst_vars; exact ⟨rfl, hr⟩)

def PEndRel (fmt : List Nat) : Outcome (FormatSpec × Nat) → Prop
  | .ok (_, np) => 1 ≤ np ∧ rd fmt (np - 1) = some 125
  | _ => True

theorem parseLoop_end (fmt : List Nat) (pos : Nat) (spec : FormatSpec) : PEndRel fmt (parseLoop fmt pos spec) := by
  fun_induction parseLoop fmt pos spec with
  | case1 pos spec s np hs =>
    have := parseStep_doneRel fmt pos spec; rw [hs] at this; simp only [DoneRel] at this
    obtain ⟨rfl, h⟩ := this
    exact ⟨by omega, h⟩
  | case2 pos spec s np hs hg ih => exact ih
  | case3 => trivial
  | case4 => trivial
  | case5 => trivial
  | case6 => trivial
  | case7 => trivial
  | case8 => trivial

/-- `parse_format` entered at a character boundary leaves the position at a character boundary -/
theorem parseFormat_safe (fmt : List Nat) (p : Nat) (hv : Valid (fmt.drop p)) (spec : FormatSpec) (p' : Nat)
    (hlt : p < p') (h : parseFormat fmt p = .ok (spec, p')) : Valid (fmt.drop p') := by
  unfold parseFormat at h
  cases hr : rd fmt p with
  | none => rw [hr] at h; cases h
  | some c =>
    rw [hr] at h
    dsimp only at h
    split at h
    · cases h
    · have := parseLoop_end fmt p {}
      rw [h] at this
      simp only [PEndRel] at this
      obtain ⟨h1, h125⟩ := this
      have hcut := slice_valid fmt p (p' - 1) hv (by omega) (fun b hb => by rw [rd_getElem h125 b hb]; decide)
      have := valid_drop_succ fmt (p' - 1) 125 hcut.2 h125 (by decide) (by decide)
      rw [show p' - 1 + 1 = p' by omega] at this
      exact this

/-! ### the `apply_format` loop -/

/-- every field the parser can produce from this format string, applied to any argument in
    range, yields chunk-safe events -/
def FieldsSafe (fmt : List Nat) (n : Nat) (fs : Formatters) : Prop :=
  ∀ p spec p', parseFormat fmt p = .ok (spec, p') → ∀ id, id < n → ∀ ev, fs id spec = .ok ev → chunkSafe ev = true

theorem applyLoop_safe (fmt : List Nat) (n : Nat) (fs : Formatters) (hfs : FieldsSafe fmt n fs) (pos index : Nat)
    (hp : pos ≤ fmt.length) (hv : Valid (fmt.drop pos)) (ev : List Event)
    (h : applyLoop fmt n fs pos index = .ok ev) : chunkSafe ev = true := by
  induction hm : fmt.length + 1 - pos using Nat.strongRecOn generalizing pos index ev with
  | _ m ih =>
    rw [applyLoop] at h
    have hs := nextFormat_sat fmt pos hp
    cases hnf : nextFormat fmt pos with
    | ok r =>
      obtain ⟨ev0, p, more⟩ := r
      rw [hnf] at h hs
      simp only [Sat] at hs
      obtain ⟨hp0, hp1, hp2⟩ := hs
      have hsafe := nextFormat_safe fmt pos hp hv ev0 p more hnf
      simp only [Outcome.bind] at h
      cases more with
      | false =>
        simp only [Bool.not_false, if_true] at h
        injection h with h; subst h; exact hsafe.1
      | true =>
        simp only [Bool.not_true, Bool.false_eq_true, if_false] at h
        obtain ⟨hplt, hc⟩ := hp2 rfl
        have hps := parseFormat_sat fmt p hplt hc
        cases hpf : parseFormat fmt p with
        | ok r =>
          obtain ⟨spec, p'⟩ := r
          rw [hpf] at h hps
          simp only [Sat] at hps
          obtain ⟨hq1, hq2⟩ := hps
          dsimp only at h
          split at h
          · cases h
          · rename_i hid
            cases hfe : fs (formatterId spec index).1 spec with
            | ok ev1 =>
              rw [hfe] at h
              dsimp only at h
              have hg : pos < p' ∧ p' ≤ fmt.length := ⟨by omega, hq2⟩
              simp only [hg, and_self, dite_true] at h
              cases hrest : applyLoop fmt n fs p' (formatterId spec index).2 with
              | ok rest =>
                rw [hrest] at h
                dsimp only at h
                injection h with h; subst h
                have h1 := hfs p spec p' hpf _ (by omega) ev1 hfe
                have hv' := parseFormat_safe fmt p hsafe.2 spec p' hq1 hpf
                have h2 := ih (fmt.length + 1 - p') (by omega) p' _ hq2 hv' rest hrest rfl
                rw [chunkSafe_append, chunkSafe_append, hsafe.1, h1, h2]; rfl
              | _ => rw [hrest] at h; simp at h
            | _ => rw [hfe] at h; simp at h
        | _ => rw [hpf] at h; simp at h
    | _ => rw [hnf] at h; simp [Outcome.bind] at h

theorem applyFormat_safe (fmt : List Nat) (n : Nat) (fs : Formatters) (hfs : FieldsSafe fmt n fs) (hv : Valid fmt)
    (ev : List Event) (h : applyFormat fmt n fs = .ok ev) : chunkSafe ev = true := by
  unfold applyFormat at h
  split at h
  · cases hnf : nextFormat fmt 0 with
    | ok r =>
      obtain ⟨ev0, p, more⟩ := r
      rw [hnf] at h
      simp only [Outcome.bind] at h
      have := nextFormat_safe fmt 0 (Nat.zero_le _) (by simpa using hv) ev0 p more hnf
      split at h
      · cases h
      · injection h with h; subst h; exact this.1
    | _ => rw [hnf] at h; simp [Outcome.bind] at h
  · exact applyLoop_safe fmt n fs hfs 0 0 (Nat.zero_le _) (by simpa using hv) ev h

end StVerif.Lemmas.Sinks
