/-
  Bridge for the translated digit generator `ST::uint_formatter<uint_T>::format(value, radix, upper_case)`
  (include/st_format_numeric.h, as written by tools/gen_kernels.py for uint_T = unsigned long and
  unsigned int): for every radix an `int` ≥ 2 can hold and every value of the type, the translated
  loop produces exactly the characters of the model's `Num.uintFormat`, never divides by zero
  (`chkNZ`), never writes before the start of the member buffer (`pushFront`) and terminates within
  `digits` iterations.
-/
import StVerif.Lemmas.KernelBridge
import StVerif.Model.Num
open StVerif StVerif.Cxx StVerif.Generated StVerif.Num

namespace StVerif.KernelBridge

/-- the `int` radix converted to `unsigned long` -/
theorem radix_to_u64 (radix : Nat) (hr' : radix < 2 ^ 31) :
    ((radix : Int) % 18446744073709551616).toNat = radix := by
  omega

/-- the `int` radix converted to `unsigned int` -/
theorem radix_to_u32 (radix : Nat) (hr' : radix < 2 ^ 31) :
    ((radix : Int) % 4294967296).toNat = radix := by
  omega

/-- `'A' + digit - 10` / `'a' + digit - 10` in `unsigned int` arithmetic narrowed into a `char`, as translated -/
theorem digit_letter_expr (c d : Nat) (hc : 10 ≤ c) (hc' : c < 256) (hd : d < 2 ^ 31) :
    ((((((c + d) % 4294967296 : Nat) : Int) - (10 : Int)) + 4294967296).toNat % 4294967296) % 256
      = (c + d - 10) % 256 := by
  omega

theorem digitCharCode_lt10 (upper : Bool) (d : Nat) (h : d < 10) : digitCharCode upper d = 48 + d := by
  unfold digitCharCode
  simp only [h, ↓reduceIte]
  omega

theorem digitCharCode_upper (d : Nat) (h : ¬ d < 10) (hd : d < 2 ^ 31) :
    digitCharCode true d
      = ((((((65 + d) % 4294967296 : Nat) : Int) - (10 : Int)) + 4294967296).toNat % 4294967296) % 256 := by
  rw [digit_letter_expr 65 d (by omega) (by omega) hd]
  unfold digitCharCode
  simp only [h, ↓reduceIte]

theorem digitCharCode_lower (d : Nat) (h : ¬ d < 10) (hd : d < 2 ^ 31) :
    digitCharCode false d
      = ((((((97 + d) % 4294967296 : Nat) : Int) - (10 : Int)) + 4294967296).toNat % 4294967296) % 256 := by
  rw [digit_letter_expr 97 d (by omega) (by omega) hd]
  unfold digitCharCode
  simp [h]

/-- one division by a radix ≥ 2 removes at least one binary digit -/
theorem div_radix_lt (radix v k : Nat) (hr : 2 ≤ radix) (hv : v < 2 ^ (k + 1)) : v / radix < 2 ^ k := by
  have h1 : v / radix ≤ v / 2 := Nat.div_le_div_left hr (by omega)
  have h2 : 2 ^ (k + 1) = 2 * 2 ^ k := by rw [Nat.pow_succ, Nat.mul_comm]
  omega

/-! ### `uint_formatter<unsigned long>` (64 digits) -/

theorem uint_format_64_loop_eq (radix : Nat) (upper : Bool) (hr : 2 ≤ radix) (hr' : radix < 2 ^ 31) :
    ∀ fuel k v text, k + text.length = 64 → v < 2 ^ k → k < fuel →
      ∃ s cs, uintLoop radix upper k v text = .ok (s, cs) ∧
        Kernels.uint_formatter_unsigned_long_format_loop1 [] (radix : Int) (if upper then 1 else 0) fuel v text = .ok cs ∧
        s + cs.length = 64 := by
  intro fuel
  induction fuel with
  | zero => intro k v text _ _ h; omega
  | succ n ih =>
    intro k v text hk hv hf
    unfold Kernels.uint_formatter_unsigned_long_format_loop1
    cases v with
    | zero =>
      refine ⟨k, text, ?_, ?_, hk⟩
      · cases k <;> simp [uintLoop]
      · simp
    | succ v' =>
      cases k with
      | zero => simp at hv
      | succ k' =>
        have hdiv := div_radix_lt radix (v' + 1) k' hr hv
        have hmod : (v' + 1) % radix < 2 ^ 31 := Nat.lt_trans (Nat.mod_lt _ (by omega)) hr'
        have hmod32 : (v' + 1) % radix % 4294967296 = (v' + 1) % radix := Nat.mod_eq_of_lt (by omega)
        have hlen : text.length < 64 := by omega
        obtain ⟨s, cs, h1, h2, h3⟩ :=
          ih k' ((v' + 1) / radix) (digitCharCode upper ((v' + 1) % radix) :: text)
            (by simp only [List.length_cons]; omega) hdiv (by omega)
        refine ⟨s, cs, ?_, ?_, h3⟩
        · simp only [uintLoop]; exact h1
        · simp only [radix_to_u64 radix hr', chkNZ, show radix ≠ 0 by omega, show v' + 1 ≠ 0 by omega,
            ne_eq, not_false_eq_true, ↓reduceIte, ok_bind, hmod32, pushFront, hlen]
          by_cases h10 : (v' + 1) % radix < 10
          · simp only [h10, ↓reduceIte]
            rw [← digitCharCode_lt10 upper _ h10]; exact h2
          · simp only [h10, ↓reduceIte]
            cases upper with
            | true =>
              simp only [↓reduceIte, Nat.succ_ne_zero, not_false_eq_true]
              rw [← digitCharCode_upper _ h10 hmod]; exact h2
            | false =>
              simp only [Bool.false_eq_true, ↓reduceIte, not_true_eq_false]
              rw [← digitCharCode_lower _ h10 hmod]; exact h2

/-- the translated `uint_formatter<unsigned long>::format` is the model's `uintFormat 64`: same characters,
    no division by zero, no write before the 65-byte buffer, at most 64 iterations -/
theorem uint_format_64_eq (value radix : Nat) (upper : Bool) (hr : 2 ≤ radix) (hr' : radix < 2 ^ 31)
    (hv : value < 2 ^ 64) (fuel : Nat) (hf : 65 ≤ fuel) :
    ∃ f, uintFormat 64 value radix upper = .ok f ∧
      Kernels.uint_formatter_unsigned_long_format [] fuel value (radix : Int) (if upper then 1 else 0) = .ok f.chars ∧
      f.start + f.chars.length = 64 := by
  unfold uintFormat Kernels.uint_formatter_unsigned_long_format
  simp only [show radix ≠ 0 by omega, ↓reduceIte]
  by_cases h0 : value = 0
  · subst h0
    exact ⟨{ start := 63, chars := [48] }, by simp, by simp [pushFront], by simp⟩
  · obtain ⟨s, cs, h1, h2, h3⟩ :=
      uint_format_64_loop_eq radix upper hr hr' fuel 64 value [] (by simp) hv (by omega)
    refine ⟨{ start := s, chars := cs }, ?_, ?_, h3⟩
    · simp only [h0, ↓reduceIte, h1, Outcome.map]
    · simp only [h0, ↓reduceIte]; exact h2

/-! ### `uint_formatter<unsigned int>` (32 digits) -/

theorem uint_format_32_loop_eq (radix : Nat) (upper : Bool) (hr : 2 ≤ radix) (hr' : radix < 2 ^ 31) :
    ∀ fuel k v text, k + text.length = 32 → v < 2 ^ k → k < fuel →
      ∃ s cs, uintLoop radix upper k v text = .ok (s, cs) ∧
        Kernels.uint_formatter_unsigned_int_format_loop1 [] (radix : Int) (if upper then 1 else 0) fuel v text = .ok cs ∧
        s + cs.length = 32 := by
  intro fuel
  induction fuel with
  | zero => intro k v text _ _ h; omega
  | succ n ih =>
    intro k v text hk hv hf
    unfold Kernels.uint_formatter_unsigned_int_format_loop1
    cases v with
    | zero =>
      refine ⟨k, text, ?_, ?_, hk⟩
      · cases k <;> simp [uintLoop]
      · simp
    | succ v' =>
      cases k with
      | zero => simp at hv
      | succ k' =>
        have hdiv := div_radix_lt radix (v' + 1) k' hr hv
        have hmod : (v' + 1) % radix < 2 ^ 31 := Nat.lt_trans (Nat.mod_lt _ (by omega)) hr'
        have hlen : text.length < 32 := by omega
        obtain ⟨s, cs, h1, h2, h3⟩ :=
          ih k' ((v' + 1) / radix) (digitCharCode upper ((v' + 1) % radix) :: text)
            (by simp only [List.length_cons]; omega) hdiv (by omega)
        refine ⟨s, cs, ?_, ?_, h3⟩
        · simp only [uintLoop]; exact h1
        · simp only [radix_to_u32 radix hr', chkNZ, show radix ≠ 0 by omega, show v' + 1 ≠ 0 by omega,
            ne_eq, not_false_eq_true, ↓reduceIte, ok_bind, pushFront, hlen]
          by_cases h10 : (v' + 1) % radix < 10
          · simp only [h10, ↓reduceIte]
            rw [← digitCharCode_lt10 upper _ h10]; exact h2
          · simp only [h10, ↓reduceIte]
            cases upper with
            | true =>
              simp only [↓reduceIte, Nat.succ_ne_zero, not_false_eq_true]
              rw [← digitCharCode_upper _ h10 hmod]; exact h2
            | false =>
              simp only [Bool.false_eq_true, ↓reduceIte, not_true_eq_false]
              rw [← digitCharCode_lower _ h10 hmod]; exact h2

/-- the translated `uint_formatter<unsigned int>::format` is the model's `uintFormat 32`: same characters,
    no division by zero, no write before the 33-byte buffer, at most 32 iterations -/
theorem uint_format_32_eq (value radix : Nat) (upper : Bool) (hr : 2 ≤ radix) (hr' : radix < 2 ^ 31)
    (hv : value < 2 ^ 32) (fuel : Nat) (hf : 33 ≤ fuel) :
    ∃ f, uintFormat 32 value radix upper = .ok f ∧
      Kernels.uint_formatter_unsigned_int_format [] fuel value (radix : Int) (if upper then 1 else 0) = .ok f.chars ∧
      f.start + f.chars.length = 32 := by
  unfold uintFormat Kernels.uint_formatter_unsigned_int_format
  simp only [show radix ≠ 0 by omega, ↓reduceIte]
  by_cases h0 : value = 0
  · subst h0
    exact ⟨{ start := 31, chars := [48] }, by simp, by simp [pushFront], by simp⟩
  · obtain ⟨s, cs, h1, h2, h3⟩ :=
      uint_format_32_loop_eq radix upper hr hr' fuel 32 value [] (by simp) hv (by omega)
    refine ⟨{ start := s, chars := cs }, ?_, ?_, h3⟩
    · simp only [h0, ↓reduceIte, h1, Outcome.map]
    · simp only [h0, ↓reduceIte]; exact h2

end StVerif.KernelBridge
