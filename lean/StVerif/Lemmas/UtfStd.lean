import StVerif.Lemmas.UtfRef

namespace StVerif.Lemmas.Utf
open StVerif StVerif.Utf StVerif.Bits StVerif.Generated
open StVerif.Spec.Unicode

/-! ### segmentation of the standard encodings -/

set_option maxRecDepth 4000 in
theorem segUtf8_enc (c : Nat) (hc : c < 0x200000) (r : List Nat) :
    segUtf8 (encUtf8 c ++ r) = .good c (encUtf8 c) :: segUtf8 r := by
  unfold encUtf8
  by_cases h1 : c < 0x80
  · simp only [h1, if_true, List.singleton_append]
    rw [segUtf8.eq_def]; dsimp only; rw [if_pos h1]
  · by_cases h2 : c < 0x800
    · simp only [h1, h2, if_false, if_true, List.cons_append, List.nil_append]
      rw [segUtf8.eq_def]
      have a : ¬ (0xC0 + c / 64 < 0x80) := by omega
      have b : 0xC0 ≤ 0xC0 + c / 64 ∧ 0xC0 + c / 64 < 0xE0 := by omega
      have d : isCont (0x80 + c % 64) = true := by simp [isCont]; omega
      dsimp only
      rw [if_neg a, if_pos b, if_pos d]
      congr 2; omega
    · by_cases h3 : c < 0x10000
      · simp only [h1, h2, h3, if_false, if_true, List.cons_append, List.nil_append]
        rw [segUtf8.eq_def]
        have a : ¬ (0xE0 + c / 4096 < 0x80) := by omega
        have b : ¬ (0xC0 ≤ 0xE0 + c / 4096 ∧ 0xE0 + c / 4096 < 0xE0) := by omega
        have b' : 0xE0 ≤ 0xE0 + c / 4096 ∧ 0xE0 + c / 4096 < 0xF0 := by omega
        have d1 : isCont (0x80 + c / 64 % 64) = true := by simp [isCont]; omega
        have d2 : isCont (0x80 + c % 64) = true := by simp [isCont]; omega
        dsimp only
        rw [if_neg a, if_neg b, if_pos b', d1, d2]
        simp only [Bool.and_self, if_true]
        congr 2; omega
      · simp only [h1, h2, h3, if_false, List.cons_append, List.nil_append]
        rw [segUtf8.eq_def]
        have a : ¬ (0xF0 + c / 262144 < 0x80) := by omega
        have b : ¬ (0xC0 ≤ 0xF0 + c / 262144 ∧ 0xF0 + c / 262144 < 0xE0) := by omega
        have b' : ¬ (0xE0 ≤ 0xF0 + c / 262144 ∧ 0xF0 + c / 262144 < 0xF0) := by omega
        have b'' : 0xF0 ≤ 0xF0 + c / 262144 ∧ 0xF0 + c / 262144 < 0xF8 := by omega
        have d1 : isCont (0x80 + c / 4096 % 64) = true := by simp [isCont]; omega
        have d2 : isCont (0x80 + c / 64 % 64) = true := by simp [isCont]; omega
        have d3 : isCont (0x80 + c % 64) = true := by simp [isCont]; omega
        dsimp only
        rw [if_neg a, if_neg b, if_neg b', if_pos b'', d1, d2, d3]
        simp only [Bool.and_self, if_true]
        congr 2; omega

set_option maxRecDepth 4000 in
theorem segUtf16_enc (c : Nat) (hs : Scalar c) (r : List Nat) :
    segUtf16 (encUtf16 c ++ r) = .good c (encUtf16 c) :: segUtf16 r := by
  obtain ⟨hlt, hns⟩ := hs
  unfold encUtf16
  by_cases h1 : c < 0x10000
  · simp only [h1, if_true, List.singleton_append]
    rw [segUtf16.eq_def]
    have a : isHigh c = false := by simp [isHigh]; omega
    have b : isLow c = false := by simp [isLow]; omega
    dsimp only
    rw [a, b]; simp only [Bool.false_eq_true, if_false]
  · simp only [h1, if_false, List.cons_append, List.nil_append]
    rw [segUtf16.eq_def]
    have a : isHigh (0xD800 + (c - 0x10000) / 1024) = true := by simp [isHigh]; omega
    have b : isLow (0xDC00 + (c - 0x10000) % 1024) = true := by simp [isLow]; omega
    dsimp only
    rw [a, b]; simp only [if_true]
    have e : 0x10000 + (0xD800 + (c - 0x10000) / 1024 - 0xD800) * 1024 + (0xDC00 + (c - 0x10000) % 1024 - 0xDC00) = c := by omega
    rw [e]

/-- the segments of a standard encoding: one `good` per scalar, carrying the standard units -/
def stdSegs (src : Enc) (s : List Nat) : List Seg :=
  s.map fun c => .good c (match src with | .utf8 => encUtf8 c | .utf16 => encUtf16 c | _ => [c])

theorem seg_std (src : Enc) (s : List Nat) (hs : ∀ c ∈ s, Scalar c) : seg src (stdEnc src s) = stdSegs src s := by
  cases src with
  | utf8 =>
    simp only [seg, stdEnc, stdSegs]
    induction s with
    | nil => rw [List.flatMap_nil, segUtf8.eq_def]; rfl
    | cons c l ih =>
      have hc := hs c (by simp)
      rw [List.flatMap_cons, segUtf8_enc c (by have := hc.1; omega), ih (fun x hx => hs x (by simp [hx]))]; rfl
  | utf16 =>
    simp only [seg, stdEnc, stdSegs]
    induction s with
    | nil => rw [List.flatMap_nil, segUtf16.eq_def]; rfl
    | cons c l ih =>
      rw [List.flatMap_cons, segUtf16_enc c (hs c (by simp)), ih (fun x hx => hs x (by simp [hx]))]; rfl
  | utf32 =>
    simp only [seg, stdEnc, stdSegs, segUtf32]
    apply List.map_congr_left
    intro c hc
    have := (hs c hc).1
    rw [if_pos (by omega)]
  | latin1 => simp only [seg, stdEnc, stdSegs, segLatin1]

/-- on the segments of a standard encoding the reference yields the standard encoding of the target -/
theorem refSteps_std (src dst : Enc) (hd : dst ≠ .latin1) (m : Mode) (subst : Bool) (s : List Nat) (hs : ∀ c ∈ s, Scalar c) :
    refSteps src dst m subst (stdSegs src s) = some (stdEnc dst s) := by
  induction s with
  | nil => cases dst <;> simp [stdSegs, refSteps, stdEnc]
  | cons c l ih =>
    have hc := hs c (by simp)
    have hle : c ≤ 0x10FFFF := by have := hc.1; omega
    have ih' := ih (fun x hx => hs x (by simp [hx]))
    simp only [stdSegs, List.map_cons] at ih' ⊢
    rw [refSteps, ih']
    cases dst with
    | utf8 => cases src <;> simp [refStep, stdEnc]
    | utf16 => simp [refStep, stdEnc, hle]
    | utf32 => simp [refStep, stdEnc]
    | latin1 => exact absurd rfl hd

theorem reference_std (src dst : Enc) (hd : dst ≠ .latin1) (m : Mode) (subst : Bool) (s : List Nat) (hs : ∀ c ∈ s, Scalar c) :
    reference src dst m subst (stdEnc src s) = .ok (stdEnc dst s) := by
  unfold reference; rw [seg_std src s hs, refSteps_std src dst hd m subst s hs]

/-- Latin-1 target: code points below 0x100 come back as their byte -/
theorem refSteps_latin1 (src : Enc) (m : Mode) (subst : Bool) (s : List Nat) (hs : ∀ c ∈ s, c < 0x100) :
    refSteps src .latin1 m subst (stdSegs src s) = some s := by
  induction s with
  | nil => simp [stdSegs, refSteps]
  | cons c l ih =>
    have hc := hs c (by simp)
    have ih' := ih (fun x hx => hs x (by simp [hx]))
    simp only [stdSegs, List.map_cons] at ih' ⊢
    rw [refSteps, ih']
    simp [refStep, hc]

theorem scalar_of_byte {c : Nat} (h : c < 0x100) : Scalar c := ⟨by omega, by omega⟩

theorem reference_to_latin1 (src : Enc) (m : Mode) (subst : Bool) (s : List Nat) (hs : ∀ c ∈ s, c < 0x100) :
    reference src .latin1 m subst (stdEnc src s) = .ok s := by
  unfold reference
  rw [seg_std src s (fun c hc => scalar_of_byte (hs c hc)), refSteps_latin1 src m subst s hs]

/-! ### unit ranges of the standard encodings -/

theorem encUtf8_bytes (c : Nat) (hc : c < 0x200000) : Bytes (encUtf8 c) := by
  intro x hx
  unfold encUtf8 at hx
  by_cases h1 : c < 0x80
  · simp [h1] at hx; omega
  · by_cases h2 : c < 0x800
    · simp [h1, h2] at hx; omega
    · by_cases h3 : c < 0x10000
      · simp [h1, h2, h3] at hx; omega
      · simp [h1, h2, h3] at hx; omega

theorem encUtf16_units (c : Nat) (hc : c < 0x110000) : UnitsLt 65536 (encUtf16 c) := by
  intro x hx
  unfold encUtf16 at hx
  by_cases h1 : c < 0x10000
  · simp [h1] at hx; omega
  · simp [h1] at hx; omega

theorem stdEnc_units (src : Enc) (s : List Nat) (hs : ∀ c ∈ s, Scalar c) (hl : src = .latin1 → ∀ c ∈ s, c < 0x100) :
    UnitsLt (unitBound src) (stdEnc src s) := by
  cases src with
  | utf8 =>
    intro x hx; simp only [stdEnc, List.mem_flatMap] at hx
    obtain ⟨c, hc, hxc⟩ := hx
    exact encUtf8_bytes c (by have := (hs c hc).1; omega) x hxc
  | utf16 =>
    intro x hx; simp only [stdEnc, List.mem_flatMap] at hx
    obtain ⟨c, hc, hxc⟩ := hx
    exact encUtf16_units c (hs c hc).1 x hxc
  | utf32 => intro x hx; have := (hs x hx).1; simp only [unitBound]; omega
  | latin1 => intro x hx; exact hl rfl x hx

end StVerif.Lemmas.Utf
