/-
  Every `ST::buffer<T>` member of Model/Pool.lean, case by case (target/source short or long,
  allocation succeeding or failing): the do-block is evaluated on a state satisfying `Inv`, the
  result is `.ok` (or `.throw badAlloc` exactly when the fault schedule says so), and the successor
  state is related to the old one by `Succ` (invariant kept, every other object untouched) together
  with the operands' new views.  No `fault` outcome is reachable.
-/
import StVerif.Lemmas.PoolInv

namespace StVerif.Pool

/-! ### small helpers -/

theorem rel_of_notOwning {p : Pool} {o : Nat} (h : NotOwning p o) (heap' : Nat → Option (List Nat)) :
    ∀ k, Owns p o k → heap' k = none := fun k hk => absurd hk (h.not_owns k)

theorem rel_of_owns {p : Pool} {o k : Nat} (hown : Owns p o k) : ∀ k', Owns p o k' → upd p.heap k none k' = none := by
  intro k' hk'; have e : k' = k := hk'.inj hown
  rw [e]; exact upd_same _ _ _

theorem heap_of_owns {p : Pool} {o k : Nat} (hown : Owns p o k) : ∀ k', ¬ Owns p o k' → upd p.heap k none k' = p.heap k' :=
  fun _ hk' => upd_other _ _ (fun e => hk' (e ▸ hown))

theorem shortOk_empty {L o : Nat} (hL : 0 < L) : ShortOk L o { chars := .loc o, size := 0, data := zeros L } :=
  ⟨length_zeros L, hL, rfl, getElem?_zeros hL⟩

theorem shortOk_reset {L o : Nat} {d : List Nat} (hL : 0 < L) (hd : d.length = L) :
    ShortOk L o { chars := .loc o, size := 0, data := overwrite d 0 [0] } :=
  ⟨by rw [length_overwrite (by simp; omega)]; exact hd, hL, rfl, getElem?_overwrite_term (by omega)⟩

/-- a live short object re-homed at `o'` (same size and in-object array) is a valid local state of `o'` -/
theorem Inv.shortOk_of_short {p : Pool} (hI : Inv p) {o o' : Nat} {b : Buf} (h : p.objs o = some b) (hs : b.size < p.L) :
    ShortOk p.L o' { chars := .loc o', size := b.size, data := b.data } :=
  ⟨(hI.short_chars h hs).2.2, hs, rfl, (hI.short_chars h hs).2.1⟩

theorem Inv.view_length {p : Pool} (hI : Inv p) {o n : Nat} {us : List Nat} (h : view p o = some (n, us)) :
    us.length = n ∧ ∃ b, p.objs o = some b ∧ b.size = n := by
  unfold view at h
  cases hb : p.objs o with
  | none => rw [hb] at h; cases h
  | some b =>
    rw [hb] at h
    simp only [Option.map_some, Option.some.injEq, Prod.mk.injEq] at h
    obtain ⟨h1, h2⟩ := h
    refine ⟨?_, b, rfl, h1⟩
    by_cases hs : b.size < p.L
    · obtain ⟨hc, _, hlen⟩ := hI.short_chars hb hs
      rw [units_short hb hc] at h2
      rw [← h2, List.length_take]; omega
    · obtain ⟨k, blk, h1', h2', h3, _, _⟩ := hI.owner_block hb (by omega)
      rw [units_long h1' h2'] at h2
      rw [← h2, List.length_take]; omega

/-- the state after a failed `new`: only the allocation counter moved -/
theorem Inv.succ_allocs {p : Pool} (hI : Inv p) (T : Nat → Prop) : Succ p { p with allocs := p.allocs + 1 } T :=
  (hI.same (by rfl) (fun _ => by rfl) (fun _ => by rfl) (by rfl) (by rfl)).1.mono (fun _ h => h.elim)

theorem Inv.succ_refl {p : Pool} (hI : Inv p) (T : Nat → Prop) : Succ p p T :=
  (hI.same rfl (fun _ => rfl) (fun _ => rfl) rfl rfl).1.mono (fun _ h => h.elim)

/-! ### constructors -/

theorem ctorDefault_spec {p : Pool} (hI : Inv p) {o : Nat} (ho : p.objs o = none) :
    ∃ p', ctorDefault o p = .ok () p' ∧ Succ p p' (· = o) ∧ view p' o = some (0, []) := by
  simp only [ctorDefault, bind_apply, getP_apply, setObj_eq]
  refine ⟨_, rfl, ?_⟩
  exact hI.set_short (by rfl) (by exact upd_same _ _ _) (fun x hx => by exact upd_other _ _ hx)
    (rel_of_notOwning (notOwning_of_none ho) _) (fun _ _ => by rfl) (by rfl) (by rfl) (shortOk_empty hI.Lpos) (by rfl) (by simp)

theorem ctorUnits_short {p : Pool} (hI : Inv p) {o : Nat} {us : List Nat} (ho : p.objs o = none) (hl : us.length < p.L) :
    ∃ p', ctorUnits o us p = .ok () p' ∧ Succ p p' (· = o) ∧ view p' o = some (us.length, us) := by
  have hn : ¬ p.L ≤ us.length := by omega
  simp only [ctorUnits, bind_apply, getP_apply, ge_iff_le, hn, ↓reduceIte, pure_apply, setObj_eq]
  rw [writeUnits_loc (upd_same _ _ _) (by simp; omega)]
  simp only []
  rw [writeUnits_loc (upd_same _ _ _) (by simp [length_overwrite, Nat.le_of_lt hl]; omega)]
  refine ⟨_, rfl, ?_⟩
  have hlen : (overwrite (overwrite (zeros p.L) 0 us) us.length [0]).length = p.L := by
    rw [length_overwrite, length_overwrite, length_zeros] <;> simp [length_overwrite, Nat.le_of_lt hl] <;> omega
  have hb : ShortOk p.L o { chars := .loc o, size := us.length, data := overwrite (overwrite (zeros p.L) 0 us) us.length [0] } :=
    ⟨hlen, hl, rfl, getElem?_overwrite_term (by simp [length_overwrite, Nat.le_of_lt hl]; omega)⟩
  exact hI.set_short (by rfl) (by exact upd_same _ _ _) (fun x hx => by simp [upd_other _ _ hx])
    (rel_of_notOwning (notOwning_of_none ho) _) (fun _ _ => by rfl) (by rfl) (by rfl) hb (by rfl)
    (by rw [take_overwrite_term (by simp [length_overwrite, Nat.le_of_lt hl]), take_overwrite_zero])

theorem ctorUnits_long_ok {p : Pool} (hI : Inv p) {o : Nat} {us : List Nat} (ho : p.objs o = none) (hl : p.L ≤ us.length)
    (hf : p.failAt ≠ some (p.allocs + 1)) :
    ∃ p', ctorUnits o us p = .ok () p' ∧ Succ p p' (· = o) ∧ view p' o = some (us.length, us) := by
  simp only [ctorUnits, bind_apply, getP_apply, ge_iff_le, hl, ↓reduceIte, newBlock_ok _ hf, setObj_eq]
  rw [writeUnits_heap (upd_same _ _ _) (by simp)]
  simp only []
  rw [writeUnits_heap (upd_same _ _ _) (by simp [length_overwrite])]
  refine ⟨_, rfl, ?_⟩
  exact hI.fresh (o := o) (n := us.length) (by rfl) (by exact upd_same _ _ _) (fun x hx => by exact upd_other _ _ hx)
    (by exact upd_same _ _ _) (fun k hk => by simp [upd_other _ _ hk]) (by rfl)
    (notOwning_of_none ho) (by rfl) (by rfl) hl (by simp) (by simp [length_overwrite])
    (getElem?_overwrite_term (by simp [length_overwrite])) (by rfl)
    (by rw [take_overwrite_term (by simp [length_overwrite]), take_overwrite_zero])

theorem ctorUnits_long_throw {p : Pool} (hI : Inv p) {o : Nat} {us : List Nat} (hl : p.L ≤ us.length)
    (hf : p.failAt = some (p.allocs + 1)) (T : Nat → Prop) :
    ∃ p', ctorUnits o us p = .throw .badAlloc p' ∧ Succ p p' T ∧ ∀ x, p'.objs x = p.objs x := by
  simp only [ctorUnits, bind_apply, getP_apply, ge_iff_le, hl, ↓reduceIte, newBlock_throw _ hf]
  exact ⟨_, rfl, hI.succ_allocs T, fun _ => rfl⟩

theorem ctorCopy_short {p : Pool} (hI : Inv p) {o src : Nat} {c : Buf} (ho : p.objs o = none) (hsrc : p.objs src = some c)
    (hs : c.size < p.L) :
    ∃ p', ctorCopy o src p = .ok () p' ∧ Succ p p' (· = o) ∧ view p' o = view p src := by
  have hn : ¬ p.L ≤ c.size := by omega
  simp only [ctorCopy, bind_apply, getP_apply, getObj_some hsrc, Buf.isReffed, ge_iff_le, decide_eq_true_eq, hn, ↓reduceIte, setObj_eq]
  refine ⟨_, rfl, ?_⟩
  rw [view_short hsrc (hI.short_chars hsrc hs).1]
  exact hI.set_short (by rfl) (by exact upd_same _ _ _) (fun x hx => by exact upd_other _ _ hx)
    (rel_of_notOwning (notOwning_of_none ho) _) (fun _ _ => by rfl) (by rfl) (by rfl)
    (hI.shortOk_of_short hsrc hs) (by rfl) (by rfl)

theorem ctorCopy_long_ok {p : Pool} (hI : Inv p) {o src : Nat} {c : Buf} (ho : p.objs o = none) (hsrc : p.objs src = some c)
    (hl : p.L ≤ c.size) (hf : p.failAt ≠ some (p.allocs + 1)) :
    ∃ p', ctorCopy o src p = .ok () p' ∧ Succ p p' (· = o) ∧ view p' o = view p src := by
  obtain ⟨k, blk, hc, hblk, hlen, hterm, _⟩ := hI.owner_block hsrc hl
  have hk : k ≠ p.next := by have := hI.bound k blk hblk; omega
  have hlt : (List.take c.size blk).length = c.size := by rw [List.length_take]; omega
  have hl1 : (overwrite (List.replicate (c.size + 1) 205) 0 (List.take c.size blk)).length = c.size + 1 := by
    rw [length_overwrite (by simp; omega)]; simp
  simp only [ctorCopy, bind_apply, getP_apply, getObj_some hsrc, Buf.isReffed, ge_iff_le, decide_eq_true_eq, hl, ↓reduceIte,
    newBlock_ok _ hf, hc]
  rw [readUnits_heap (blk := blk) (by simp only []; rw [upd_other _ _ hk]; exact hblk) (by omega)]
  simp only [setObj_eq]
  rw [writeUnits_heap (upd_same _ _ _) (by simp; omega)]
  simp only []
  rw [writeUnits_heap (upd_same _ _ _) (by rw [hl1]; simp)]
  simp only [getObj, upd_same]
  refine ⟨_, rfl, ?_⟩
  rw [view_long hsrc hc hblk]
  exact hI.fresh (o := o) (n := c.size) (by rfl) (by exact upd_same _ _ _) (fun x hx => by simp [upd_other _ _ hx])
    (by exact upd_same _ _ _) (fun k hk => by simp [upd_other _ _ hk]) (by rfl)
    (notOwning_of_none ho) (by rfl) (by rfl) hl (by simp) (by rw [length_overwrite (by simp; omega)]; exact hl1)
    (getElem?_overwrite_term (by omega)) (by rfl)
    (by rw [take_overwrite_term (by omega)]
        have := take_overwrite_zero (blk := List.replicate (c.size + 1) 205) (us := List.take c.size blk)
        rw [hlt] at this; exact this)

theorem ctorCopy_long_throw {p : Pool} (hI : Inv p) {o src : Nat} {c : Buf} (hsrc : p.objs src = some c)
    (hl : p.L ≤ c.size) (hf : p.failAt = some (p.allocs + 1)) (T : Nat → Prop) :
    ∃ p', ctorCopy o src p = .throw .badAlloc p' ∧ Succ p p' T ∧ ∀ x, p'.objs x = p.objs x := by
  simp only [ctorCopy, bind_apply, getP_apply, getObj_some hsrc, Buf.isReffed, ge_iff_le, decide_eq_true_eq, hl, ↓reduceIte,
    newBlock_throw _ hf]
  exact ⟨_, rfl, hI.succ_allocs T, fun _ => rfl⟩

theorem ctorMove_short {p : Pool} (hI : Inv p) {o src : Nat} {mv : Buf} (ho : p.objs o = none) (hsrc : p.objs src = some mv)
    (hs : mv.size < p.L) :
    ∃ p', ctorMove o src p = .ok () p' ∧ Succ p p' (fun x => x = o ∨ x = src) ∧ view p' o = view p src ∧
      view p' src = some (0, []) := by
  have hn : ¬ p.L ≤ mv.size := by omega
  have hne : o ≠ src := fun e => by rw [e, hsrc] at ho; cases ho
  simp only [ctorMove, bind_apply, getP_apply, getObj_some hsrc, ge_iff_le, hn, ↓reduceIte, setObj_eq]
  refine ⟨_, rfl, ?_⟩
  obtain ⟨hc, hterm, hlen⟩ := hI.short_chars hsrc hs
  -- first the new object, then the source
  have h1 := hI.set_short (p' := { p with objs := upd p.objs o (some { chars := .loc o, size := mv.size, data := mv.data }) })
    (o := o) rfl (upd_same _ _ _) (fun x hx => upd_other _ _ hx)
    (rel_of_notOwning (notOwning_of_none ho) _) (fun _ _ => rfl) rfl rfl (hI.shortOk_of_short hsrc hs) rfl rfl
  have hsrc1 : Pool.objs { p with objs := upd p.objs o (some { chars := .loc o, size := mv.size, data := mv.data }) } src = some mv := by
    simp only []; rw [upd_other _ _ (Ne.symm hne)]; exact hsrc
  have h2 := h1.1.inv.set_short (o := src) (n := 0) (vs := [])
    (p' := { p with objs := upd (upd p.objs o (some { chars := .loc o, size := mv.size, data := mv.data })) src
                                (some { chars := .loc src, size := 0, data := overwrite mv.data 0 [0] }) })
    rfl (upd_same _ _ _) (fun x hx => upd_other _ _ hx)
    (rel_of_notOwning (notOwning_of_short hsrc1 hs) _) (fun _ _ => rfl) rfl rfl (shortOk_reset hI.Lpos hlen) rfl rfl
  refine ⟨(h1.1.mono (fun x h => Or.inl h)).trans (h2.1.mono (fun x h => Or.inr h)), ?_, h2.2⟩
  rw [h2.1.view o hne, h1.2, view_short hsrc hc]

theorem ctorMove_long {p : Pool} (hI : Inv p) {o src : Nat} {mv : Buf} (ho : p.objs o = none) (hsrc : p.objs src = some mv)
    (hl : p.L ≤ mv.size) :
    ∃ p', ctorMove o src p = .ok () p' ∧ Succ p p' (fun x => x = o ∨ x = src) ∧ view p' o = view p src ∧
      view p' src = some (0, []) := by
  have hne : o ≠ src := fun e => by rw [e, hsrc] at ho; cases ho
  obtain ⟨k, blk, hc, hblk, _, _, _⟩ := hI.owner_block hsrc hl
  simp only [ctorMove, bind_apply, getP_apply, getObj_some hsrc, ge_iff_le, hl, ↓reduceIte, setObj_eq]
  refine ⟨_, rfl, ?_⟩
  have := hI.transfer (o := o) (src := src) (k := k)
    (p' := { p with objs := upd (upd p.objs o (some { chars := mv.chars, size := mv.size, data := mv.data })) src
                                (some { chars := .loc src, size := 0, data := overwrite mv.data 0 [0] }) })
    rfl hne (notOwning_of_none ho) hsrc hl hc
    (by simp only []; rw [upd_other _ _ hne, upd_same]) (upd_same _ _ _)
    (fun x h1 h2 => by simp only []; rw [upd_other _ _ h2, upd_other _ _ h1]) (fun _ => rfl) rfl hc rfl
    (hI.obj src mv hsrc).len (shortOk_reset hI.Lpos (hI.obj src mv hsrc).len) rfl
  exact ⟨this.1, this.2.1, by rw [this.2.2]; rfl⟩

/-! ### destructor, clear -/

theorem dtor_short {p : Pool} (hI : Inv p) {o : Nat} {b : Buf} (ho : p.objs o = some b) (hs : b.size < p.L) :
    ∃ p', dtor o p = .ok () p' ∧ Succ p p' (· = o) ∧ view p' o = none := by
  have hn : ¬ p.L ≤ b.size := by omega
  simp only [dtor, bind_apply, getP_apply, getObj_some ho, Buf.isReffed, ge_iff_le, decide_eq_true_eq, hn, ↓reduceIte,
    dropObj_eq]
  refine ⟨_, rfl, ?_⟩
  exact hI.drop (by rfl) (by exact upd_same _ _ _) (fun x hx => by exact upd_other _ _ hx)
    (rel_of_notOwning (notOwning_of_short ho hs) _) (fun _ _ => by rfl) (by rfl) (by rfl)

theorem dtor_long {p : Pool} (hI : Inv p) {o : Nat} {b : Buf} (ho : p.objs o = some b) (hl : p.L ≤ b.size) :
    ∃ p', dtor o p = .ok () p' ∧ Succ p p' (· = o) ∧ view p' o = none := by
  obtain ⟨k, blk, hc, hblk, _, _, hown⟩ := hI.owner_block ho hl
  simp only [dtor, bind_apply, getP_apply, getObj_some ho, Buf.isReffed, ge_iff_le, decide_eq_true_eq, hl, ↓reduceIte, hc,
    deleteBlock_some hblk, dropObj_eq]
  refine ⟨_, rfl, ?_⟩
  exact hI.drop (by rfl) (by exact upd_same _ _ _) (fun x hx => by exact upd_other _ _ hx)
    (rel_of_owns hown) (heap_of_owns hown) (by rfl) (by rfl)

theorem clear_short {p : Pool} (hI : Inv p) {o : Nat} {b : Buf} (ho : p.objs o = some b) (hs : b.size < p.L) :
    ∃ p', clear o p = .ok () p' ∧ Succ p p' (· = o) ∧ view p' o = some (0, []) := by
  have hn : ¬ p.L ≤ b.size := by omega
  simp only [clear, bind_apply, getP_apply, getObj_some ho, Buf.isReffed, ge_iff_le, decide_eq_true_eq, hn, ↓reduceIte,
    setObj_eq]
  refine ⟨_, rfl, ?_⟩
  exact hI.set_short (by rfl) (by exact upd_same _ _ _) (fun x hx => by exact upd_other _ _ hx)
    (rel_of_notOwning (notOwning_of_short ho hs) _) (fun _ _ => by rfl) (by rfl) (by rfl) (shortOk_empty hI.Lpos) (by rfl) (by simp)

theorem clear_long {p : Pool} (hI : Inv p) {o : Nat} {b : Buf} (ho : p.objs o = some b) (hl : p.L ≤ b.size) :
    ∃ p', clear o p = .ok () p' ∧ Succ p p' (· = o) ∧ view p' o = some (0, []) := by
  obtain ⟨k, blk, hc, hblk, _, _, hown⟩ := hI.owner_block ho hl
  simp only [clear, bind_apply, getP_apply, getObj_some ho, Buf.isReffed, ge_iff_le, decide_eq_true_eq, hl, ↓reduceIte, hc,
    deleteBlock_some hblk, setObj_eq]
  refine ⟨_, rfl, ?_⟩
  exact hI.set_short (by rfl) (by exact upd_same _ _ _) (fun x hx => by exact upd_other _ _ hx)
    (rel_of_owns hown) (heap_of_owns hown) (by rfl) (by rfl) (shortOk_empty hI.Lpos) (by rfl) (by simp)

/-! ### stores through `data()` -/

/-- storing `us` at `data() + a` with `a + |us| ≤ size()` -/
theorem write_spec {p : Pool} (hI : Inv p) {o a : Nat} {us : List Nat} {b : Buf} (ho : p.objs o = some b)
    (hr : a + us.length ≤ b.size) :
    ∃ p', writeUnits b.chars a us p = .ok () p' ∧ Succ p p' (· = o) ∧ p'.allocs = p.allocs ∧
      ∃ old, view p o = some (b.size, old) ∧ view p' o = some (b.size, overwrite old a us) := by
  by_cases hs : b.size < p.L
  · obtain ⟨hc, hterm, hlen⟩ := hI.short_chars ho hs
    rw [hc, writeUnits_loc ho (by omega)]
    refine ⟨_, rfl, ?_⟩
    have hb : ShortOk p.L o { b with data := overwrite b.data a us } :=
      ⟨by rw [length_overwrite (by omega)]; exact hlen, hs, hc,
       by rw [getElem?_overwrite_ge (by omega) hr]; exact hterm⟩
    have := hI.set_short (o := o) (n := b.size) (vs := overwrite (b.data.take b.size) a us)
      (p' := { p with objs := upd p.objs o (some { b with data := overwrite b.data a us }) })
      rfl (upd_same _ _ _) (fun x hx => upd_other _ _ hx)
      (rel_of_notOwning (notOwning_of_short ho hs) _) (fun _ _ => rfl) rfl rfl hb rfl
      (take_overwrite_within hr (by omega))
    exact ⟨this.1, rfl, _, view_short ho hc, this.2⟩
  · obtain ⟨k, blk, hc, hblk, hlen, hterm, _⟩ := hI.owner_block ho (by omega)
    rw [hc, writeUnits_heap hblk (by omega)]
    refine ⟨_, rfl, ?_⟩
    have := hI.write_long (o := o) (blk' := overwrite blk a us)
      (p' := { p with heap := upd p.heap k (some (overwrite blk a us)) })
      rfl ho (by omega) hc hblk (fun _ => rfl) (upd_same _ _ _) (fun x hx => upd_other _ _ hx) rfl
      (length_overwrite (by omega)) (by rw [getElem?_overwrite_ge (by omega) hr]; exact hterm) rfl
    refine ⟨this.1, rfl, _, view_long ho hc hblk, ?_⟩
    rw [this.2, take_overwrite_within hr (by omega)]

theorem writeData_spec {p : Pool} (hI : Inv p) {o a : Nat} {us : List Nat} {b : Buf} (ho : p.objs o = some b)
    (hr : a + us.length ≤ b.size) :
    ∃ p', writeData o a us p = .ok () p' ∧ Succ p p' (· = o) ∧
      ∃ old, view p o = some (b.size, old) ∧ view p' o = some (b.size, overwrite old a us) := by
  obtain ⟨p', h1, h2, _, h3⟩ := write_spec hI ho hr
  simp only [writeData, bind_apply, getObj_some ho, hr, ↓reduceIte]
  exact ⟨p', h1, h2, h3⟩

/-! ### outcomes -/

/-- the two possible outcomes of an operation started in a state satisfying the invariant: it completes,
    or — only when the fault schedule makes its allocation fail — `bad_alloc` propagates.  Either way the
    successor satisfies `Succ` for the operand set `T`; never a `fault`. -/
def Outcome (r : Res Unit) (p : Pool) (T : Nat → Prop) (okPost throwPost : Pool → Prop) : Prop :=
  (∃ p', r = .ok () p' ∧ Succ p p' T ∧ okPost p') ∨
  (∃ p', r = .throw .badAlloc p' ∧ p.failAt = some (p.allocs + 1) ∧ Succ p p' T ∧ throwPost p')

theorem Outcome.of_ok {r : Res Unit} {p : Pool} {T : Nat → Prop} {okPost throwPost : Pool → Prop}
    (h : ∃ p', r = .ok () p' ∧ Succ p p' T ∧ okPost p') : Outcome r p T okPost throwPost := Or.inl h

/-! ### copy assignment (two phases: release, then copy) -/

/-- first phase of copy assignment: a long target releases its block and becomes the empty in-object buffer -/
def assignCopyReset (o : Nat) : M Unit := do
  let p ← getP
  let b ← getObj o
  if b.isReffed p.L then
    deleteBlock b.chars
    setObj o { chars := .loc o, size := 0, data := overwrite b.data 0 [0] }

/-- second phase of copy assignment -/
def assignCopyTail (L o src : Nat) : M Unit := do
  let c ← getObj src
  if c.isReffed L then
    let chars ← newBlock (c.size + 1)
    let us ← readUnits c.chars c.size
    writeUnits chars 0 us
    writeUnits chars c.size [0]
    let b ← getObj o
    setObj o { b with chars := chars, size := c.size }
  else
    setObj o { chars := .loc o, size := c.size, data := c.data }

theorem assignCopy_phases (o src : Nat) (p : Pool) (h : o ≠ src) :
    assignCopy o src p = (assignCopyReset o >>= fun _ => assignCopyTail p.L o src) p := by
  simp only [assignCopy, h, assignCopyReset, assignCopyTail, ↓reduceIte, bind_apply, getP_apply]
  cases getObj o p with
  | ok b p1 =>
    by_cases hr : b.isReffed p.L = true
    · simp only [hr, ↓reduceIte, bind_apply]
      cases deleteBlock b.chars p1 <;> rfl
    · simp only [hr, Bool.false_eq_true, ↓reduceIte, bind_apply, pure_apply]
  | _ => rfl

theorem assignCopy_self (o : Nat) (p : Pool) : assignCopy o o p = .ok () p := by
  simp [assignCopy]

theorem assignCopyReset_spec {p : Pool} (hI : Inv p) {o : Nat} {b : Buf} (ho : p.objs o = some b) :
    ∃ p₁, assignCopyReset o p = .ok () p₁ ∧ Succ p p₁ (· = o) ∧ p₁.allocs = p.allocs ∧ NotOwning p₁ o ∧
      (∃ b₁, p₁.objs o = some b₁) ∧ (view p₁ o = view p o ∨ view p₁ o = some (0, [])) := by
  by_cases hs : b.size < p.L
  · have hn : ¬ p.L ≤ b.size := by omega
    simp only [assignCopyReset, bind_apply, getP_apply, getObj_some ho, Buf.isReffed, ge_iff_le, decide_eq_true_eq, hn, ↓reduceIte,
      pure_apply]
    exact ⟨p, rfl, hI.succ_refl _, rfl, notOwning_of_short ho hs, ⟨b, ho⟩, Or.inl rfl⟩
  · have hl : p.L ≤ b.size := by omega
    obtain ⟨k, blk, hc, hblk, _, _, hown⟩ := hI.owner_block ho hl
    simp only [assignCopyReset, bind_apply, getP_apply, getObj_some ho, Buf.isReffed, ge_iff_le, decide_eq_true_eq, hl, ↓reduceIte, hc,
      deleteBlock_some hblk, setObj_eq]
    refine ⟨_, rfl, ?_⟩
    have hb := shortOk_reset (o := o) hI.Lpos (hI.obj o b ho).len
    have := hI.set_short (o := o) (n := 0) (vs := [])
      (p' := { p with heap := upd p.heap k none, objs := upd p.objs o (some { chars := .loc o, size := 0, data := overwrite b.data 0 [0] }) })
      rfl (upd_same _ _ _) (fun x hx => upd_other _ _ hx) (rel_of_owns hown) (heap_of_owns hown) rfl rfl hb rfl rfl
    refine ⟨this.1, rfl, ?_, ⟨_, upd_same _ _ _⟩, Or.inr this.2⟩
    intro b' hb'
    simp only [upd_same] at hb'
    cases hb'; exact hI.Lpos

theorem assignCopyTail_short {p : Pool} (hI : Inv p) {o src : Nat} {c : Buf} (hno : NotOwning p o) (hsrc : p.objs src = some c)
    (hs : c.size < p.L) :
    ∃ p', assignCopyTail p.L o src p = .ok () p' ∧ Succ p p' (· = o) ∧ view p' o = view p src := by
  have hn : ¬ p.L ≤ c.size := by omega
  simp only [assignCopyTail, bind_apply, getObj_some hsrc, Buf.isReffed, ge_iff_le, decide_eq_true_eq, hn, ↓reduceIte, setObj_eq]
  refine ⟨_, rfl, ?_⟩
  rw [view_short hsrc (hI.short_chars hsrc hs).1]
  exact hI.set_short (by rfl) (by exact upd_same _ _ _) (fun x hx => by exact upd_other _ _ hx)
    (rel_of_notOwning hno _) (fun _ _ => by rfl) (by rfl) (by rfl) (hI.shortOk_of_short hsrc hs) (by rfl) (by rfl)

theorem assignCopyTail_long_ok {p : Pool} (hI : Inv p) {o src : Nat} {b c : Buf} (ho : p.objs o = some b) (hno : NotOwning p o)
    (hsrc : p.objs src = some c) (hl : p.L ≤ c.size) (hf : p.failAt ≠ some (p.allocs + 1)) :
    ∃ p', assignCopyTail p.L o src p = .ok () p' ∧ Succ p p' (· = o) ∧ view p' o = view p src := by
  obtain ⟨k, blk, hc, hblk, hlen, hterm, _⟩ := hI.owner_block hsrc hl
  have hk : k ≠ p.next := by have := hI.bound k blk hblk; omega
  have hlt : (List.take c.size blk).length = c.size := by rw [List.length_take]; omega
  have hl1 : (overwrite (List.replicate (c.size + 1) 205) 0 (List.take c.size blk)).length = c.size + 1 := by
    rw [length_overwrite (by simp; omega)]; simp
  simp only [assignCopyTail, bind_apply, getObj_some hsrc, Buf.isReffed, ge_iff_le, decide_eq_true_eq, hl, ↓reduceIte,
    newBlock_ok _ hf, hc]
  rw [readUnits_heap (blk := blk) (by simp only []; rw [upd_other _ _ hk]; exact hblk) (by omega)]
  simp only []
  rw [writeUnits_heap (upd_same _ _ _) (by simp; omega)]
  simp only []
  rw [writeUnits_heap (upd_same _ _ _) (by rw [hl1]; simp)]
  simp only [getObj, ho, setObj_eq]
  refine ⟨_, rfl, ?_⟩
  rw [view_long hsrc hc hblk]
  exact hI.fresh (o := o) (n := c.size) (b' := { chars := .heap p.next, size := c.size, data := b.data })
    (by rfl) (by exact upd_same _ _ _) (fun x hx => by exact upd_other _ _ hx)
    (by exact upd_same _ _ _) (fun k hk => by simp [upd_other _ _ hk]) (by rfl)
    hno (by rfl) (by rfl) hl (hI.obj o b ho).len (by rw [length_overwrite (by simp; omega)]; exact hl1)
    (getElem?_overwrite_term (by omega)) (by rfl)
    (by rw [take_overwrite_term (by omega)]
        have := take_overwrite_zero (blk := List.replicate (c.size + 1) 205) (us := List.take c.size blk)
        rw [hlt] at this; exact this)

theorem assignCopyTail_long_throw {p : Pool} (hI : Inv p) {o src : Nat} {c : Buf} (hsrc : p.objs src = some c)
    (hl : p.L ≤ c.size) (hf : p.failAt = some (p.allocs + 1)) (T : Nat → Prop) :
    ∃ p', assignCopyTail p.L o src p = .throw .badAlloc p' ∧ Succ p p' T ∧ ∀ x, view p' x = view p x := by
  simp only [assignCopyTail, bind_apply, getObj_some hsrc, Buf.isReffed, ge_iff_le, decide_eq_true_eq, hl, ↓reduceIte,
    newBlock_throw _ hf]
  exact ⟨_, rfl, hI.succ_allocs T, (hI.same (by rfl) (fun _ => by rfl) (fun _ => by rfl) (by rfl) (by rfl)).2⟩

theorem assignCopy_spec {p : Pool} (hI : Inv p) {o src : Nat} {b c : Buf} (ho : p.objs o = some b) (hsrc : p.objs src = some c) :
    Outcome (assignCopy o src p) p (· = o) (fun p' => view p' o = view p src)
      (fun p' => view p' o = view p o ∨ view p' o = some (0, [])) := by
  by_cases hne : o = src
  · subst hne
    rw [assignCopy_self]
    exact Or.inl ⟨p, rfl, hI.succ_refl _, rfl⟩
  · rw [assignCopy_phases o src p hne]
    obtain ⟨p₁, hr, hS, ha, hno, ⟨b₁, hb₁⟩, hv⟩ := assignCopyReset_spec hI ho
    simp only [bind_apply, hr]
    have hsrc₁ : p₁.objs src = some c := by rw [hS.objs src (Ne.symm hne)]; exact hsrc
    have hvs : view p₁ src = view p src := hS.view src (Ne.symm hne)
    rw [← hS.L]
    by_cases hs : c.size < p₁.L
    · obtain ⟨p', h1, h2, h3⟩ := assignCopyTail_short hS.inv hno hsrc₁ hs
      exact Or.inl ⟨p', h1, hS.trans h2, h3.trans hvs⟩
    · by_cases hf : p₁.failAt = some (p₁.allocs + 1)
      · obtain ⟨p', h1, h2, h3⟩ := assignCopyTail_long_throw hS.inv (o := o) hsrc₁ (by omega) hf (· = o)
        refine Or.inr ⟨p', h1, by rw [← hS.failAt, ← ha]; exact hf, hS.trans h2, ?_⟩
        show view p' o = view p o ∨ view p' o = some (0, [])
        rw [h3 o]; exact hv
      · obtain ⟨p', h1, h2, h3⟩ := assignCopyTail_long_ok hS.inv hb₁ hno hsrc₁ (by omega) hf
        exact Or.inl ⟨p', h1, hS.trans h2, h3.trans hvs⟩

/-! ### move assignment -/

theorem assignMove_self {p : Pool} (hI : Inv p) {o : Nat} {b : Buf} (ho : p.objs o = some b) :
    ∃ p', assignMove o o p = .ok () p' ∧ Succ p p' (fun x => x = o ∨ x = o) ∧ view p' o = view p o := by
  have hb : (if b.isReffed p.L = true then b else { b with chars := .loc o }) = b := by
    by_cases hs : b.size < p.L
    · have hn : ¬ p.L ≤ b.size := by omega
      have hc := (hI.short_chars ho hs).1
      simp only [Buf.isReffed, ge_iff_le, decide_eq_true_eq, hn, ↓reduceIte]
      cases b; simp only at hc; subst hc; rfl
    · have hl : p.L ≤ b.size := by omega
      simp only [Buf.isReffed, ge_iff_le, decide_eq_true_eq, hl, ↓reduceIte]
  simp only [assignMove, bind_apply, getP_apply, getObj_some ho, setObj_eq]
  refine ⟨_, rfl, ?_⟩
  simp only [hb, upd_upd]
  have := hI.same (p' := { p with objs := upd p.objs o (some b) }) rfl
    (fun x => by
      by_cases hx : x = o
      · subst hx; simp only [upd_same]; exact ho.symm
      · exact upd_other _ _ hx)
    (fun _ => rfl) rfl rfl
  exact ⟨this.1.mono (fun _ h => h.elim), this.2 o⟩

theorem assignMove_short_short {p : Pool} (hI : Inv p) {o src : Nat} {a b : Buf} (hne : o ≠ src) (ho : p.objs o = some a)
    (hsrc : p.objs src = some b) (ha : a.size < p.L) (hb : b.size < p.L) :
    ∃ p', assignMove o src p = .ok () p' ∧ Succ p p' (fun x => x = o ∨ x = src) ∧ view p' o = view p src ∧
      view p' src = view p o := by
  have hna : ¬ p.L ≤ a.size := by omega
  have hnb : ¬ p.L ≤ b.size := by omega
  simp only [assignMove, bind_apply, getP_apply, getObj_some ho, getObj_some hsrc, Buf.isReffed, ge_iff_le, decide_eq_true_eq, hna, hnb,
    ↓reduceIte, setObj_eq]
  refine ⟨_, rfl, ?_⟩
  have h1 := hI.set_short (p' := { p with objs := upd p.objs src (some { chars := .loc src, size := a.size, data := a.data }) })
    (o := src) rfl (upd_same _ _ _) (fun x hx => upd_other _ _ hx)
    (rel_of_notOwning (notOwning_of_short hsrc hb) _) (fun _ _ => rfl) rfl rfl (hI.shortOk_of_short ho ha) rfl rfl
  have ho1 : Pool.objs { p with objs := upd p.objs src (some { chars := .loc src, size := a.size, data := a.data }) } o = some a := by
    simp only []; rw [upd_other _ _ hne]; exact ho
  have h2 := h1.1.inv.set_short (o := o)
    (p' := { p with objs := upd (upd p.objs src (some { chars := .loc src, size := a.size, data := a.data })) o
                                (some { chars := .loc o, size := b.size, data := b.data }) })
    rfl (upd_same _ _ _) (fun x hx => upd_other _ _ hx)
    (rel_of_notOwning (notOwning_of_short ho1 ha) _) (fun _ _ => rfl) rfl rfl (hI.shortOk_of_short hsrc hb) rfl rfl
  refine ⟨(h1.1.mono (fun x h => Or.inr h)).trans (h2.1.mono (fun x h => Or.inl h)), ?_, ?_⟩
  · rw [h2.2, view_short hsrc (hI.short_chars hsrc hb).1]
  · rw [h2.1.view src (Ne.symm hne), h1.2, view_short ho (hI.short_chars ho ha).1]

theorem assignMove_short_long {p : Pool} (hI : Inv p) {o src : Nat} {a b : Buf} (hne : o ≠ src) (ho : p.objs o = some a)
    (hsrc : p.objs src = some b) (ha : a.size < p.L) (hb : p.L ≤ b.size) :
    ∃ p', assignMove o src p = .ok () p' ∧ Succ p p' (fun x => x = o ∨ x = src) ∧ view p' o = view p src ∧
      view p' src = view p o := by
  have hna : ¬ p.L ≤ a.size := by omega
  obtain ⟨k, blk, hc, hblk, _, _, _⟩ := hI.owner_block hsrc hb
  simp only [assignMove, bind_apply, getP_apply, getObj_some ho, getObj_some hsrc, Buf.isReffed, ge_iff_le, decide_eq_true_eq, hna, hb,
    ↓reduceIte, setObj_eq]
  refine ⟨_, rfl, ?_⟩
  have := hI.transfer (o := o) (src := src) (k := k)
    (p' := { p with objs := upd (upd p.objs src (some { chars := .loc src, size := a.size, data := a.data })) o
                                (some { chars := b.chars, size := b.size, data := b.data }) })
    rfl hne (notOwning_of_short ho ha) hsrc hb hc (upd_same _ _ _)
    (by simp only []; rw [upd_other _ _ (Ne.symm hne), upd_same])
    (fun x h1 h2 => by simp only []; rw [upd_other _ _ h1, upd_other _ _ h2]) (fun _ => rfl) rfl hc rfl
    (hI.obj src b hsrc).len (hI.shortOk_of_short ho ha) rfl
  exact ⟨this.1, this.2.1, by rw [this.2.2, view_short ho (hI.short_chars ho ha).1]⟩

theorem assignMove_long_short {p : Pool} (hI : Inv p) {o src : Nat} {a b : Buf} (hne : o ≠ src) (ho : p.objs o = some a)
    (hsrc : p.objs src = some b) (ha : p.L ≤ a.size) (hb : b.size < p.L) :
    ∃ p', assignMove o src p = .ok () p' ∧ Succ p p' (fun x => x = o ∨ x = src) ∧ view p' o = view p src ∧
      view p' src = view p o := by
  have hnb : ¬ p.L ≤ b.size := by omega
  obtain ⟨k, blk, hc, hblk, _, _, _⟩ := hI.owner_block ho ha
  simp only [assignMove, bind_apply, getP_apply, getObj_some ho, getObj_some hsrc, Buf.isReffed, ge_iff_le, decide_eq_true_eq, hnb, ha,
    ↓reduceIte, setObj_eq]
  refine ⟨_, rfl, ?_⟩
  have := hI.transfer (o := src) (src := o) (k := k)
    (p' := { p with objs := upd (upd p.objs src (some { chars := a.chars, size := a.size, data := a.data })) o
                                (some { chars := .loc o, size := b.size, data := b.data }) })
    rfl (Ne.symm hne) (notOwning_of_short hsrc hb) ho ha hc
    (by simp only []; rw [upd_other _ _ (Ne.symm hne), upd_same]) (upd_same _ _ _)
    (fun x h1 h2 => by simp only []; rw [upd_other _ _ h2, upd_other _ _ h1]) (fun _ => rfl) rfl hc rfl
    (hI.obj o a ho).len (hI.shortOk_of_short hsrc hb) rfl
  exact ⟨this.1.mono (fun _ h => h.symm), by rw [this.2.2, view_short hsrc (hI.short_chars hsrc hb).1], this.2.1⟩

theorem assignMove_long_long {p : Pool} (hI : Inv p) {o src : Nat} {a b : Buf} (hne : o ≠ src) (ho : p.objs o = some a)
    (hsrc : p.objs src = some b) (ha : p.L ≤ a.size) (hb : p.L ≤ b.size) :
    ∃ p', assignMove o src p = .ok () p' ∧ Succ p p' (fun x => x = o ∨ x = src) ∧ view p' o = view p src ∧
      view p' src = view p o := by
  obtain ⟨k₁, blk₁, hc₁, _, _, _, _⟩ := hI.owner_block ho ha
  obtain ⟨k₂, blk₂, hc₂, _, _, _, _⟩ := hI.owner_block hsrc hb
  simp only [assignMove, bind_apply, getP_apply, getObj_some ho, getObj_some hsrc, Buf.isReffed, ge_iff_le, decide_eq_true_eq, ha, hb,
    ↓reduceIte, setObj_eq]
  refine ⟨_, rfl, ?_⟩
  exact hI.swap_long (o := o) (src := src) (k₁ := k₁) (k₂ := k₂)
    (p' := { p with objs := upd (upd p.objs src (some { chars := a.chars, size := a.size, data := a.data })) o
                                (some { chars := b.chars, size := b.size, data := b.data }) })
    rfl hne ho ha hc₁ hsrc hb hc₂ (upd_same _ _ _)
    (by simp only []; rw [upd_other _ _ (Ne.symm hne), upd_same])
    (fun x h1 h2 => by simp only []; rw [upd_other _ _ h1, upd_other _ _ h2]) (fun _ => rfl) rfl hc₂ rfl
    (hI.obj src b hsrc).len hc₁ rfl (hI.obj o a ho).len rfl

theorem assignMove_spec {p : Pool} (hI : Inv p) {o src : Nat} {a b : Buf} (ho : p.objs o = some a) (hsrc : p.objs src = some b) :
    ∃ p', assignMove o src p = .ok () p' ∧ Succ p p' (fun x => x = o ∨ x = src) ∧ view p' o = view p src ∧
      view p' src = view p o := by
  by_cases hne : o = src
  · subst hne
    obtain ⟨p', h1, h2, h3⟩ := assignMove_self hI ho
    exact ⟨p', h1, h2, h3, h3⟩
  · by_cases ha : a.size < p.L <;> by_cases hb : b.size < p.L
    · exact assignMove_short_short hI hne ho hsrc ha hb
    · exact assignMove_short_long hI hne ho hsrc ha (by omega)
    · exact assignMove_long_short hI hne ho hsrc (by omega) hb
    · exact assignMove_long_long hI hne ho hsrc (by omega) (by omega)

/-! ### allocate (two phases: become the empty in-object buffer, then take the new storage) -/

/-- first phase of `allocate` (as repaired): release / clear, leaving the empty in-object buffer -/
def allocateReset (o : Nat) : M Unit := do
  let p ← getP
  let b ← getObj o
  if b.isReffed p.L then
    deleteBlock b.chars
    setObj o { chars := .loc o, size := 0, data := overwrite b.data 0 [0] }
  else
    setObj o { chars := .loc o, size := 0, data := zeros p.L }

/-- second phase of `allocate` -/
def allocateTail (L o n : Nat) : M Unit := do
  if n ≥ L then
    let chars ← newBlock (n + 1)
    let b ← getObj o
    setObj o { b with chars := chars, size := n }
    writeUnits chars n [0]
  else
    let b ← getObj o
    setObj o { b with size := n }
    writeUnits (.loc o) n [0]

theorem allocate_phases (o n : Nat) (p : Pool) :
    allocate o n p = (allocateReset o >>= fun _ => allocateTail p.L o n) p := by
  simp only [allocate, allocateReset, allocateTail, bind_apply, getP_apply]
  cases getObj o p with
  | ok b p1 =>
    by_cases hr : b.isReffed p.L = true
    · simp only [hr, ↓reduceIte, bind_apply]
      cases deleteBlock b.chars p1 with
      | ok _ p2 => rfl
      | _ => rfl
    · simp only [hr, Bool.false_eq_true, ↓reduceIte]; rfl
  | _ => rfl

theorem allocateReset_spec {p : Pool} (hI : Inv p) {o : Nat} {b : Buf} (ho : p.objs o = some b) :
    ∃ p₁, allocateReset o p = .ok () p₁ ∧ Succ p p₁ (· = o) ∧ p₁.allocs = p.allocs ∧ view p₁ o = some (0, []) := by
  by_cases hs : b.size < p.L
  · have hn : ¬ p.L ≤ b.size := by omega
    simp only [allocateReset, bind_apply, getP_apply, getObj_some ho, Buf.isReffed, ge_iff_le, decide_eq_true_eq, hn, ↓reduceIte,
      setObj_eq]
    refine ⟨_, rfl, ?_⟩
    have := hI.set_short (o := o) (n := 0) (vs := [])
      (p' := { p with objs := upd p.objs o (some { chars := .loc o, size := 0, data := zeros p.L }) })
      rfl (upd_same _ _ _) (fun x hx => upd_other _ _ hx) (rel_of_notOwning (notOwning_of_short ho hs) _) (fun _ _ => rfl) rfl rfl
      (shortOk_empty hI.Lpos) rfl rfl
    exact ⟨this.1, rfl, this.2⟩
  · have hl : p.L ≤ b.size := by omega
    obtain ⟨k, blk, hc, hblk, _, _, hown⟩ := hI.owner_block ho hl
    simp only [allocateReset, bind_apply, getP_apply, getObj_some ho, Buf.isReffed, ge_iff_le, decide_eq_true_eq, hl, ↓reduceIte, hc,
      deleteBlock_some hblk, setObj_eq]
    refine ⟨_, rfl, ?_⟩
    have := hI.set_short (o := o) (n := 0) (vs := [])
      (p' := { p with heap := upd p.heap k none, objs := upd p.objs o (some { chars := .loc o, size := 0, data := overwrite b.data 0 [0] }) })
      rfl (upd_same _ _ _) (fun x hx => upd_other _ _ hx) (rel_of_owns hown) (heap_of_owns hown) rfl rfl
      (shortOk_reset hI.Lpos (hI.obj o b ho).len) rfl rfl
    exact ⟨this.1, rfl, this.2⟩

theorem allocateTail_short {p : Pool} (hI : Inv p) {o n : Nat} {b : Buf} (ho : p.objs o = some b) (hs : b.size < p.L)
    (hn : n < p.L) :
    ∃ p', allocateTail p.L o n p = .ok () p' ∧ Succ p p' (· = o) ∧ ∃ us, us.length = n ∧ view p' o = some (n, us) := by
  have hn' : ¬ p.L ≤ n := by omega
  obtain ⟨hc, _, hlen⟩ := hI.short_chars ho hs
  simp only [allocateTail, bind_apply, ge_iff_le, hn', ↓reduceIte, getObj_some ho, setObj_eq]
  rw [writeUnits_loc (upd_same _ _ _) (by simp; omega)]
  refine ⟨_, rfl, ?_⟩
  have hb : ShortOk p.L o { chars := b.chars, size := n, data := overwrite b.data n [0] } :=
    ⟨by rw [length_overwrite (by simp; omega)]; exact hlen, hn, hc, getElem?_overwrite_term (by omega)⟩
  have := hI.set_short (o := o) (n := n) (vs := (overwrite b.data n [0]).take n)
    (p' := { p with objs := upd (upd p.objs o (some { chars := b.chars, size := n, data := b.data })) o
                                (some { chars := b.chars, size := n, data := overwrite b.data n [0] }) })
    rfl (upd_same _ _ _) (fun x hx => by simp only []; rw [upd_other _ _ hx, upd_other _ _ hx])
    (rel_of_notOwning (notOwning_of_short ho hs) _) (fun _ _ => rfl) rfl rfl hb rfl rfl
  refine ⟨this.1, _, ?_, this.2⟩
  rw [List.length_take, length_overwrite (by simp; omega)]; omega

theorem allocateTail_long_ok {p : Pool} (hI : Inv p) {o n : Nat} {b : Buf} (ho : p.objs o = some b) (hs : b.size < p.L)
    (hn : p.L ≤ n) (hf : p.failAt ≠ some (p.allocs + 1)) :
    ∃ p', allocateTail p.L o n p = .ok () p' ∧ Succ p p' (· = o) ∧ ∃ us, us.length = n ∧ view p' o = some (n, us) := by
  simp only [allocateTail, bind_apply, ge_iff_le, hn, ↓reduceIte, newBlock_ok _ hf]
  simp only [getObj, ho, setObj_eq]
  rw [writeUnits_heap (upd_same _ _ _) (by simp)]
  refine ⟨_, rfl, ?_⟩
  have := hI.fresh (o := o) (n := n) (b' := { chars := .heap p.next, size := n, data := b.data })
    (blk := overwrite (List.replicate (n + 1) 205) n [0]) (vs := (overwrite (List.replicate (n + 1) 205) n [0]).take n)
    (p' := { p with objs := upd p.objs o (some { chars := .heap p.next, size := n, data := b.data }),
                    heap := upd (upd p.heap p.next (some (List.replicate (n + 1) 205))) p.next
                              (some (overwrite (List.replicate (n + 1) 205) n [0])),
                    next := p.next + 1, allocs := p.allocs + 1 })
    rfl (upd_same _ _ _) (fun x hx => upd_other _ _ hx) (upd_same _ _ _)
    (fun k hk => by simp only []; rw [upd_other _ _ hk, upd_other _ _ hk]) rfl
    (notOwning_of_short ho hs) rfl rfl hn (hI.obj o b ho).len (by rw [length_overwrite (by simp)]; simp)
    (getElem?_overwrite_term (by simp)) rfl rfl
  refine ⟨this.1, _, ?_, this.2⟩
  rw [List.length_take, length_overwrite (by simp)]; simp

theorem allocateTail_long_throw {p : Pool} (hI : Inv p) {o n : Nat} (hn : p.L ≤ n) (hf : p.failAt = some (p.allocs + 1))
    (T : Nat → Prop) :
    ∃ p', allocateTail p.L o n p = .throw .badAlloc p' ∧ Succ p p' T ∧ ∀ x, view p' x = view p x := by
  simp only [allocateTail, bind_apply, ge_iff_le, hn, ↓reduceIte, newBlock_throw _ hf]
  exact ⟨_, rfl, hI.succ_allocs T, (hI.same (by rfl) (fun _ => by rfl) (fun _ => by rfl) (by rfl) (by rfl)).2⟩

theorem allocate_spec {p : Pool} (hI : Inv p) {o : Nat} (n : Nat) {b : Buf} (ho : p.objs o = some b) :
    Outcome (allocate o n p) p (· = o) (fun p' => ∃ us, us.length = n ∧ view p' o = some (n, us))
      (fun p' => view p' o = some (0, [])) := by
  rw [allocate_phases]
  obtain ⟨p₁, hr, hS, ha, hv⟩ := allocateReset_spec hI ho
  simp only [bind_apply, hr]
  obtain ⟨_, b₁, hb₁, hz⟩ := hS.inv.view_length hv
  have hs₁ : b₁.size < p₁.L := by rw [hz]; exact hS.inv.Lpos
  rw [← hS.L]
  by_cases hn : n < p₁.L
  · obtain ⟨p', h1, h2, h3⟩ := allocateTail_short hS.inv hb₁ hs₁ hn
    exact Or.inl ⟨p', h1, hS.trans h2, h3⟩
  · by_cases hf : p₁.failAt = some (p₁.allocs + 1)
    · obtain ⟨p', h1, h2, h3⟩ := allocateTail_long_throw hS.inv (o := o) (n := n) (Nat.le_of_not_lt hn) hf (· = o)
      refine Or.inr ⟨p', h1, by rw [← hS.failAt, ← ha]; exact hf, hS.trans h2, ?_⟩
      show view p' o = some (0, [])
      rw [h3 o]; exact hv
    · obtain ⟨p', h1, h2, h3⟩ := allocateTail_long_ok hS.inv hb₁ hs₁ (Nat.le_of_not_lt hn) hf
      exact Or.inl ⟨p', h1, hS.trans h2, h3⟩

theorem overwrite_all {old us : List Nat} (h : old.length = us.length) : overwrite old 0 us = us := by
  simp [overwrite, h]

theorem allocateFill_spec {p : Pool} (hI : Inv p) {o : Nat} (n v : Nat) {b : Buf} (ho : p.objs o = some b) :
    Outcome (allocateFill o n v p) p (· = o) (fun p' => view p' o = some (n, List.replicate n v))
      (fun p' => view p' o = some (0, [])) := by
  simp only [allocateFill, bind_apply]
  rcases allocate_spec hI n ho with ⟨p₂, h1, h2, us, hlen, hv⟩ | ⟨p₂, h1, hf, h2, hv⟩
  · rw [h1]
    obtain ⟨_, b₂, hb₂, hz⟩ := h2.inv.view_length hv
    simp only [getObj_some hb₂]
    obtain ⟨p', h3, h4, _, old, ho1, ho2⟩ := write_spec h2.inv (a := 0) (us := List.replicate n v) hb₂ (by simp; omega)
    refine Or.inl ⟨p', h3, h2.trans h4, ?_⟩
    show view p' o = some (n, List.replicate n v)
    rw [ho2, hz]
    rw [hv] at ho1
    simp only [Option.some.injEq, Prod.mk.injEq] at ho1
    rw [overwrite_all (by rw [← ho1.2, hlen]; simp)]
  · rw [h1]
    exact Or.inr ⟨p₂, rfl, hf, h2, hv⟩

end StVerif.Pool
