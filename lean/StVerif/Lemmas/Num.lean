/-
  Helper lemmas for C12: the backwards-filling digit loop produces the canonical digits and stays
  inside its buffer; the strtol transcription reads a canonical numeral back exactly.
-/
import StVerif.Model.Num
import StVerif.Lemmas.Digits

namespace StVerif.Lemmas.Num
open StVerif StVerif.Num StVerif.Spec.Digits StVerif.Lemmas.Digits

/-! ### digit characters -/

theorem digitCharCode_eq (upper : Bool) : ∀ d, d < 36 → digitCharCode upper d = digitChar upper d := by
  cases upper <;> decide

theorem digitOf_digitChar (upper : Bool) : ∀ d, d < 36 → digitOf (digitChar upper d) = some d := by
  cases upper <;> decide

theorem digitChar_ne_zero (upper : Bool) (d : Nat) (h : d < 36) : digitChar upper d ≠ 0 := by
  have : ∀ d, d < 36 → digitChar upper d ≠ 0 := by cases upper <;> decide
  exact this d h

theorem digitChar_not_space (upper : Bool) (d : Nat) (h : d < 36) : Num.isSpace (digitChar upper d) = false := by
  have : ∀ d, d < 36 → Num.isSpace (digitChar upper d) = false := by cases upper <;> decide
  exact this d h

theorem digitChar_not_sign (upper : Bool) (d : Nat) (h : d < 36) : digitChar upper d ≠ 45 ∧ digitChar upper d ≠ 43 := by
  have : ∀ d, d < 36 → digitChar upper d ≠ 45 ∧ digitChar upper d ≠ 43 := by cases upper <;> decide
  exact this d h

theorem digitChar_eq_48 (upper : Bool) (d : Nat) (h : d < 36) : digitChar upper d = 48 ↔ d = 0 := by
  have : ∀ d, d < 36 → (digitChar upper d = 48 ↔ d = 0) := by cases upper <;> decide
  exact this d h

/-! ### `uint_formatter` -/

/-- The loop started with `value < 2^start` never leaves the buffer, prepends exactly the digits of
    `value` (most significant first) and moves `m_start` down by their number. -/
theorem uintLoop_spec (radix : Nat) (hr : 2 ≤ radix) (upper : Bool) :
    ∀ (start value : Nat) (acc : List Nat), value < 2 ^ start →
      (digits0 radix value).length ≤ start ∧
      uintLoop radix upper start value acc =
        .ok (start - (digits0 radix value).length, (digits0 radix value).map (digitCharCode upper) ++ acc) := by
  intro start
  induction start with
  | zero =>
    intro value acc hv
    have : value = 0 := by simpa using hv
    subst this
    simp [digits0, uintLoop]
  | succ start ih =>
    intro value acc hv
    cases value with
    | zero => simp [digits0, uintLoop]
    | succ v =>
      have hne : v + 1 ≠ 0 := by omega
      have hdiv : (v + 1) / radix < 2 ^ start := by
        have h1 : (v + 1) / radix ≤ (v + 1) / 2 := Nat.div_le_div_left hr (by omega)
        have h2 : (v + 1) / 2 < 2 ^ start := by
          rw [Nat.div_lt_iff_lt_mul (by omega)]; rw [Nat.pow_succ] at hv; exact hv
        omega
      obtain ⟨hl, he⟩ := ih ((v + 1) / radix) (digitCharCode upper ((v + 1) % radix) :: acc) hdiv
      rw [digits0_step radix hr (v + 1) hne]
      refine ⟨by simp; omega, ?_⟩
      simp only [uintLoop, he, List.length_append, List.length_singleton, List.map_append, List.map_cons, List.map_nil,
        List.append_assoc, List.singleton_append]
      congr 2
      omega

/-- `format()` of a value that fits the type: a value, never `oob`; the characters are the digits of
    the value in the requested base, `size()` is their number, and `m_start` stays inside the buffer -/
theorem uintFormat_spec (w value radix : Nat) (upper : Bool) (hr : 2 ≤ radix) (hw : 0 < w) (hv : value < 2 ^ w) :
    ∃ f, uintFormat w value radix upper = .ok f ∧ f.chars = (digits radix value).map (digitCharCode upper) ∧
      f.size w = f.chars.length ∧ f.start < w ∧ f.copy w = f.chars := by
  unfold uintFormat
  rw [if_neg (by omega)]
  by_cases h0 : value = 0
  · subst h0
    cases w with
    | zero => omega
    | succ w' =>
      refine ⟨{ start := w', chars := [48] }, by simp, ?_, ?_, ?_, ?_⟩
      · rw [digits_zero]; simp [digitCharCode]
      · simp [UFmt.size]
      · simp
      · simp [UFmt.copy, UFmt.size]
  · rw [if_neg h0]
    obtain ⟨hl, he⟩ := uintLoop_spec radix hr upper w value [] hv
    have hd : digits0 radix value = digits radix value := by simp [digits0, h0]
    rw [hd] at hl he
    have hpos : 0 < (digits radix value).length := List.length_pos_iff.mpr (digits_ne_nil radix value)
    refine ⟨{ start := w - (digits radix value).length, chars := (digits radix value).map (digitCharCode upper) }, ?_, rfl, ?_, ?_, ?_⟩
    · rw [he]; simp [Outcome.map]
    · simp [UFmt.size]; omega
    · simp; omega
    · simp only [UFmt.copy, UFmt.size]
      rw [show w - (w - (digits radix value).length) = (digits radix value).length by omega]
      rw [← List.length_map (f := digitCharCode upper), List.take_length]

/-- with a base of at most 36 the characters are the canonical text of the specification -/
theorem uintFormat_text (w value radix : Nat) (upper : Bool) (hr : 2 ≤ radix) (hr' : radix ≤ 36) (hw : 0 < w) (hv : value < 2 ^ w) :
    ∃ f, uintFormat w value radix upper = .ok f ∧ f.copy w = natText radix upper value ∧ f.start < w := by
  obtain ⟨f, h1, h2, _, h4, h5⟩ := uintFormat_spec w value radix upper hr hw hv
  refine ⟨f, h1, ?_, h4⟩
  rw [h5, h2]
  unfold natText
  apply List.map_congr_left
  intro d hd
  exact digitCharCode_eq upper d (by have := digits_lt_base radix hr value d hd; omega)

/-! ### magnitude of a signed value by unsigned negation -/

/-- `value < 0 ? 0 - static_cast<uint_T>(value) : static_cast<uint_T>(value)` is `|value|` for every
    value of the type, including the most negative one -/
theorem absValue_eq (t : IntTy) (ht : t.signed = true) (v : Int) (hv : t.holds v) :
    (if v < 0 then wrapW t.bits (0 - (wrapW t.bits v : Int)) else wrapW t.bits v) = v.natAbs := by
  cases t <;> simp [IntTy.signed] at ht <;> simp [IntTy.holds, IntTy.signed, IntTy.bits] at hv ⊢ <;>
    (unfold wrapW; split <;> omega)

theorem natAbs_lt (t : IntTy) (v : Int) (hv : t.holds v) : v.natAbs < 2 ^ t.bits := by
  cases t <;> simp [IntTy.holds, IntTy.signed, IntTy.bits] at hv ⊢ <;> omega

theorem bits_pos (t : IntTy) : 0 < t.bits := by cases t <;> simp [IntTy.bits]

theorem wrapW_nat (t : IntTy) (ht : t.signed = false) (v : Int) (hv : t.holds v) : wrapW t.bits (v.toNat : Nat) = v.natAbs := by
  cases t <;> simp [IntTy.signed] at ht <;> simp [IntTy.holds, IntTy.signed, IntTy.bits] at hv ⊢ <;>
    (unfold wrapW; omega)

end StVerif.Lemmas.Num
