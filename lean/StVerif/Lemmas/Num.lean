/-
  Helper lemmas for C12: the backwards-filling digit loop produces the canonical digits and stays
  inside its buffer; the strtol transcription reads a canonical numeral back exactly.
-/
import StVerif.Model.Num
import StVerif.Lemmas.Digits

namespace StVerif.Lemmas.Num
open StVerif StVerif.Num StVerif.Spec.Digits StVerif.Lemmas.Digits

/-! ### digit characters -/

theorem digitCharCode_eq (upper : Bool) : ∀ d, d < 36 → digitCharCode upper d = digitChar upper d := by
  cases upper <;> decide

theorem digitOf_digitChar (upper : Bool) : ∀ d, d < 36 → digitOf (digitChar upper d) = some d := by
  cases upper <;> decide

theorem digitChar_ne_zero (upper : Bool) (d : Nat) (h : d < 36) : digitChar upper d ≠ 0 := by
  have : ∀ d, d < 36 → digitChar upper d ≠ 0 := by cases upper <;> decide
  exact this d h

theorem digitChar_not_space (upper : Bool) (d : Nat) (h : d < 36) : Num.isSpace (digitChar upper d) = false := by
  have : ∀ d, d < 36 → Num.isSpace (digitChar upper d) = false := by cases upper <;> decide
  exact this d h

theorem digitChar_not_sign (upper : Bool) (d : Nat) (h : d < 36) : digitChar upper d ≠ 45 ∧ digitChar upper d ≠ 43 := by
  have : ∀ d, d < 36 → digitChar upper d ≠ 45 ∧ digitChar upper d ≠ 43 := by cases upper <;> decide
  exact this d h

theorem digitChar_eq_48 (upper : Bool) (d : Nat) (h : d < 36) : digitChar upper d = 48 ↔ d = 0 := by
  have : ∀ d, d < 36 → (digitChar upper d = 48 ↔ d = 0) := by cases upper <;> decide
  exact this d h

/-! ### `uint_formatter` -/

/-- The loop started with `value < 2^start` never leaves the buffer, prepends exactly the digits of
    `value` (most significant first) and moves `m_start` down by their number. -/
theorem uintLoop_spec (radix : Nat) (hr : 2 ≤ radix) (upper : Bool) :
    ∀ (start value : Nat) (acc : List Nat), value < 2 ^ start →
      (digits0 radix value).length ≤ start ∧
      uintLoop radix upper start value acc =
        .ok (start - (digits0 radix value).length, (digits0 radix value).map (digitCharCode upper) ++ acc) := by
  intro start
  induction start with
  | zero =>
    intro value acc hv
    have : value = 0 := by simpa using hv
    subst this
    simp [digits0, uintLoop]
  | succ start ih =>
    intro value acc hv
    cases value with
    | zero => simp [digits0, uintLoop]
    | succ v =>
      have hne : v + 1 ≠ 0 := by omega
      have hdiv : (v + 1) / radix < 2 ^ start := by
        have h1 : (v + 1) / radix ≤ (v + 1) / 2 := Nat.div_le_div_left hr (by omega)
        have h2 : (v + 1) / 2 < 2 ^ start := by
          rw [Nat.div_lt_iff_lt_mul (by omega)]; rw [Nat.pow_succ] at hv; exact hv
        omega
      obtain ⟨hl, he⟩ := ih ((v + 1) / radix) (digitCharCode upper ((v + 1) % radix) :: acc) hdiv
      rw [digits0_step radix hr (v + 1) hne]
      refine ⟨by simp; omega, ?_⟩
      simp only [uintLoop, he, List.length_append, List.length_singleton, List.map_append, List.map_cons, List.map_nil,
        List.append_assoc, List.singleton_append]
      congr 2
      omega

/-- `format()` of a value that fits the type: a value, never `oob`; the characters are the digits of
    the value in the requested base, `size()` is their number, and `m_start` stays inside the buffer -/
theorem uintFormat_spec (w value radix : Nat) (upper : Bool) (hr : 2 ≤ radix) (hw : 0 < w) (hv : value < 2 ^ w) :
    ∃ f, uintFormat w value radix upper = .ok f ∧ f.chars = (digits radix value).map (digitCharCode upper) ∧
      f.size w = f.chars.length ∧ f.start < w ∧ f.copy w = f.chars := by
  unfold uintFormat
  rw [if_neg (by omega)]
  by_cases h0 : value = 0
  · subst h0
    cases w with
    | zero => omega
    | succ w' =>
      refine ⟨{ start := w', chars := [48] }, by simp, ?_, ?_, ?_, ?_⟩
      · rw [digits_zero]; simp [digitCharCode]
      · simp [UFmt.size]
      · simp
      · simp [UFmt.copy, UFmt.size]
  · rw [if_neg h0]
    obtain ⟨hl, he⟩ := uintLoop_spec radix hr upper w value [] hv
    have hd : digits0 radix value = digits radix value := by simp [digits0, h0]
    rw [hd] at hl he
    have hpos : 0 < (digits radix value).length := List.length_pos_iff.mpr (digits_ne_nil radix value)
    refine ⟨{ start := w - (digits radix value).length, chars := (digits radix value).map (digitCharCode upper) }, ?_, rfl, ?_, ?_, ?_⟩
    · rw [he]; simp [Outcome.map]
    · simp [UFmt.size]; omega
    · simp; omega
    · simp only [UFmt.copy, UFmt.size]
      rw [show w - (w - (digits radix value).length) = (digits radix value).length by omega]
      rw [← List.length_map (f := digitCharCode upper), List.take_length]

/-- with a base of at most 36 the characters are the canonical text of the specification -/
theorem uintFormat_text (w value radix : Nat) (upper : Bool) (hr : 2 ≤ radix) (hr' : radix ≤ 36) (hw : 0 < w) (hv : value < 2 ^ w) :
    ∃ f, uintFormat w value radix upper = .ok f ∧ f.copy w = natText radix upper value ∧ f.start < w := by
  obtain ⟨f, h1, h2, _, h4, h5⟩ := uintFormat_spec w value radix upper hr hw hv
  refine ⟨f, h1, ?_, h4⟩
  rw [h5, h2]
  unfold natText
  apply List.map_congr_left
  intro d hd
  exact digitCharCode_eq upper d (by have := digits_lt_base radix hr value d hd; omega)

/-! ### magnitude of a signed value by unsigned negation -/

/-- `value < 0 ? 0 - static_cast<uint_T>(value) : static_cast<uint_T>(value)` is `|value|` for every
    value of the type, including the most negative one -/
theorem absValue_eq (t : IntTy) (ht : t.signed = true) (v : Int) (hv : t.holds v) :
    (if v < 0 then wrapW t.bits (0 - (wrapW t.bits v : Int)) else wrapW t.bits v) = v.natAbs := by
  cases t <;> simp [IntTy.signed] at ht <;> simp [IntTy.holds, IntTy.signed, IntTy.bits] at hv ⊢ <;>
    (unfold wrapW; split <;> omega)

theorem natAbs_lt (t : IntTy) (v : Int) (hv : t.holds v) : v.natAbs < 2 ^ t.bits := by
  cases t <;> simp [IntTy.holds, IntTy.signed, IntTy.bits] at hv ⊢ <;> omega

theorem bits_pos (t : IntTy) : 0 < t.bits := by cases t <;> simp [IntTy.bits]

theorem wrapW_nat (t : IntTy) (ht : t.signed = false) (v : Int) (hv : t.holds v) : wrapW t.bits (v.toNat : Nat) = v.natAbs := by
  cases t <;> simp [IntTy.signed] at ht <;> simp [IntTy.holds, IntTy.signed, IntTy.bits] at hv ⊢ <;>
    (unfold wrapW; omega)

/-! ### the strtol transcription reads canonical text back -/

/-- glibc's overflow test (`i > cutoff || (i == cutoff && c > cutlim)`) does not fire while the value
    accumulated so far still fits an `unsigned long` -/
theorem no_overflow_step (base i d : Nat) (hb : 2 ≤ base) (h : i * base + d ≤ ULONG_MAX) :
    ¬ (i > ULONG_MAX / base ∨ (i = ULONG_MAX / base ∧ d > ULONG_MAX % base)) := by
  have hdm := Nat.div_add_mod ULONG_MAX base
  have hr : ULONG_MAX % base < base := Nat.mod_lt _ (by omega)
  intro hc
  rcases hc with hc | ⟨hc1, hc2⟩
  · have h1 : (ULONG_MAX / base + 1) * base ≤ i * base := Nat.mul_le_mul_right base hc
    have h2 : (ULONG_MAX / base + 1) * base = base * (ULONG_MAX / base) + base := by
      rw [Nat.add_mul, Nat.one_mul, Nat.mul_comm]
    omega
  · rw [hc1, Nat.mul_comm] at h
    omega

theorem foldl_ge (base : Nat) : ∀ (ds : List Nat) (i : Nat), 1 ≤ base → i ≤ ds.foldl (fun acc d => acc * base + d) i := by
  intro ds
  induction ds with
  | nil => intro i _; exact Nat.le_refl _
  | cons d ds ih =>
    intro i hb
    have := ih (i * base + d) hb
    have h2 : i ≤ i * base := Nat.le_mul_of_pos_right i hb
    simp only [List.foldl_cons]
    omega

/-- the accumulation loop over the characters of digits below the base whose value fits: every
    character is consumed, the overflow flag is untouched, `i` is the positional value -/
theorem strtoLoop_digits (base : Nat) (hb : 2 ≤ base) (hb36 : base ≤ 36) (upper : Bool) :
    ∀ (ds : List Nat) (i n : Nat) (ovf : Bool) (rest : List Nat),
      (∀ d ∈ ds, d < base) → ds.foldl (fun acc d => acc * base + d) i ≤ ULONG_MAX →
      strtoLoop base (ULONG_MAX / base) (ULONG_MAX % base) (ds.map (digitChar upper) ++ rest) i ovf n
        = strtoLoop base (ULONG_MAX / base) (ULONG_MAX % base) rest (ds.foldl (fun acc d => acc * base + d) i) ovf (n + ds.length) := by
  intro ds
  induction ds with
  | nil => intro i n ovf rest _ _; simp
  | cons d ds ih =>
    intro i n ovf rest hlt hle
    have hd : d < base := hlt d (by simp)
    have hrest : ∀ e ∈ ds, e < base := fun e he => hlt e (by simp [he])
    simp only [List.foldl_cons] at hle
    have hstep : i * base + d ≤ ULONG_MAX := Nat.le_trans (foldl_ge base ds (i * base + d) (by omega)) hle
    have hno := no_overflow_step base i d hb hstep
    simp only [List.map_cons, List.cons_append, strtoLoop, digitOf_digitChar upper d (by omega)]
    rw [if_neg (by omega), if_neg hno, ih (i * base + d) (n + 1) ovf rest hrest hle]
    simp only [List.foldl_cons, List.length_cons]
    congr 1
    omega

theorem cstr_eq (s : List Nat) (h : ∀ c ∈ s, c ≠ 0) : cstr s = s := by
  unfold cstr
  induction s with
  | nil => rfl
  | cons a t ih =>
    have ha : a ≠ 0 := h a (by simp)
    simp only [List.takeWhile_cons, bne_iff_ne, ne_eq, ha, not_false_eq_true, if_true]
    rw [ih (fun c hc => h c (by simp [hc]))]

theorem natText_no_nul (base : Nat) (hb : 2 ≤ base) (hb36 : base ≤ 36) (upper : Bool) (n : Nat) : ∀ c ∈ natText base upper n, c ≠ 0 := by
  intro c hc
  unfold natText at hc
  obtain ⟨d, hd, rfl⟩ := List.mem_map.mp hc
  exact digitChar_ne_zero upper d (by have := digits_lt_base base hb n d hd; omega)

/-- no prefix is recognised in front of canonical digits when an explicit base is given -/
theorem basePrefix_digits (base : Nat) (hb : 2 ≤ base) (hb36 : base ≤ 36) (upper : Bool) (n : Nat) :
    basePrefix base (natText base upper n) = (base, 0) := by
  unfold natText
  cases hds : digits base n with
  | nil => exact absurd hds (digits_ne_nil base n)
  | cons d0 ds' =>
    have hd0 : d0 < 36 := by have := digits_lt_base base hb n d0 (by rw [hds]; simp); omega
    unfold basePrefix
    by_cases h48 : digitChar upper d0 = 48
    · have hz : d0 = 0 := (digitChar_eq_48 upper d0 hd0).mp h48
      have hnil : ds' = [] := digits_head_zero base hb n d0 ds' hds hz
      subst hnil
      simp [h48, toUpper]
      omega
    · simp [h48]
      omega

theorem natText_ne_nil (base : Nat) (upper : Bool) (n : Nat) : natText base upper n ≠ [] := by
  unfold natText; simp [digits_ne_nil]

theorem natText_head (base : Nat) (hb : 2 ≤ base) (hb36 : base ≤ 36) (upper : Bool) (n : Nat) :
    ∃ c t, natText base upper n = c :: t ∧ Num.isSpace c = false ∧ c ≠ 45 ∧ c ≠ 43 := by
  unfold natText
  cases hds : digits base n with
  | nil => exact absurd hds (digits_ne_nil base n)
  | cons d0 ds' =>
    have hd0 : d0 < 36 := by have := digits_lt_base base hb n d0 (by rw [hds]; simp); omega
    exact ⟨_, _, rfl, digitChar_not_space upper d0 hd0, (digitChar_not_sign upper d0 hd0).1, (digitChar_not_sign upper d0 hd0).2⟩

/-- value accumulated over the canonical text of `n` -/
theorem loop_natText (base : Nat) (hb : 2 ≤ base) (hb36 : base ≤ 36) (upper : Bool) (n : Nat) (hn : n ≤ ULONG_MAX) :
    strtoLoop base (ULONG_MAX / base) (ULONG_MAX % base) (natText base upper n) 0 false 0 = (n, false, (natText base upper n).length) := by
  have h := strtoLoop_digits base hb hb36 upper (digits base n) 0 0 false [] (digits_lt_base base hb n)
    (by have := ofDigits_digits base hb n; unfold ofDigits at this; rw [this]; exact hn)
  have hv := ofDigits_digits base hb n
  unfold ofDigits at hv
  unfold natText
  rw [List.append_nil] at h
  rw [h, hv]
  simp [strtoLoop]

/-- scanning the canonical text of a non-negative number -/
theorem strtoScan_natText (base : Nat) (hb : 2 ≤ base) (hb36 : base ≤ 36) (upper : Bool) (n : Nat) (hn : n ≤ ULONG_MAX) :
    strtoScan (natText base upper n) base =
      { negative := false, i := n, overflow := false, endp := (natText base upper n).length, conv := true } := by
  obtain ⟨c, t, hct, hsp, h45, h43⟩ := natText_head base hb hb36 upper n
  have hbp := basePrefix_digits base hb hb36 upper n
  have hloop := loop_natText base hb hb36 upper n hn
  have hlen : (natText base upper n).length ≠ 0 := by rw [hct]; simp
  unfold strtoScan
  have htw : (List.takeWhile Num.isSpace (natText base upper n)).length = 0 := by rw [hct]; simp [hsp]
  rw [htw]
  simp only [List.drop_zero]
  rw [hct]
  simp only [signAt, h45, h43, if_false, Nat.zero_add, List.drop_zero]
  rw [← hct, hbp]
  simp only [List.drop_zero, hloop]
  rw [if_neg hlen]
  simp

/-- scanning '-' followed by the canonical text of a magnitude -/
theorem strtoScan_negText (base : Nat) (hb : 2 ≤ base) (hb36 : base ≤ 36) (upper : Bool) (n : Nat) (hn : n ≤ ULONG_MAX) :
    strtoScan (45 :: natText base upper n) base =
      { negative := true, i := n, overflow := false, endp := (natText base upper n).length + 1, conv := true } := by
  have hbp := basePrefix_digits base hb hb36 upper n
  have hloop := loop_natText base hb hb36 upper n hn
  have hlen : (natText base upper n).length ≠ 0 := by
    have := natText_ne_nil base upper n
    exact fun h => this (List.eq_nil_of_length_eq_zero h)
  unfold strtoScan
  have htw : (List.takeWhile Num.isSpace (45 :: natText base upper n)).length = 0 := by simp [Num.isSpace]
  rw [htw]
  simp only [List.drop_zero, signAt, if_true, Nat.zero_add, List.drop_succ_cons, List.drop_zero]
  rw [hbp]
  simp only [Nat.add_zero, List.drop_succ_cons, List.drop_zero, hloop]
  rw [if_neg hlen]
  simp; omega

/-! ### the libc functions and the `to_*` members on canonical text -/

theorem intText_no_nul (base : Nat) (hb : 2 ≤ base) (hb36 : base ≤ 36) (upper : Bool) (v : Int) : ∀ c ∈ intText base upper v, c ≠ 0 := by
  intro c hc
  unfold intText at hc
  rcases List.mem_append.mp hc with h | h
  · split at h
    · have : c = 45 := by simpa using h
      omega
    · simp at h
  · exact natText_no_nul base hb hb36 upper _ c h

theorem intText_length_pos (base : Nat) (upper : Bool) (v : Int) : intText base upper v ≠ [] := by
  unfold intText
  have := natText_ne_nil base upper v.natAbs
  simp [this]

/-- `strtol` on the canonical text of any `long` value: that value, everything consumed, no ERANGE -/
theorem strtol_intText (base : Nat) (hb : 2 ≤ base) (hb36 : base ≤ 36) (upper : Bool) (v : Int)
    (hv : -(2 ^ 63 : Int) ≤ v ∧ v < (2 ^ 63 : Int)) :
    strtol (intText base upper v) base = { value := v, endp := (intText base upper v).length, erange := false } := by
  unfold strtol
  rw [cstr_eq _ (intText_no_nul base hb hb36 upper v)]
  have hn : v.natAbs ≤ ULONG_MAX := by unfold ULONG_MAX; omega
  unfold intText
  by_cases hneg : v < 0
  · simp only [hneg, if_true, List.singleton_append]
    rw [strtoScan_negText base hb hb36 upper v.natAbs hn]
    have h1 : ¬ (v.natAbs > 2 ^ 63) := by omega
    simp [h1, toSigned, wrapW]
    omega
  · simp only [hneg, if_false, List.nil_append]
    rw [strtoScan_natText base hb hb36 upper v.natAbs hn]
    have h1 : ¬ (v.natAbs > 2 ^ 63 - 1) := by omega
    simp [h1, toSigned]
    omega

/-- `strtoul` on the canonical text of any `unsigned long` value -/
theorem strtoul_natText (base : Nat) (hb : 2 ≤ base) (hb36 : base ≤ 36) (upper : Bool) (n : Nat) (hn : n < 2 ^ 64) :
    strtoul (natText base upper n) base = { value := n, endp := (natText base upper n).length, erange := false } := by
  unfold strtoul
  rw [cstr_eq _ (natText_no_nul base hb hb36 upper n)]
  rw [strtoScan_natText base hb hb36 upper n (by unfold ULONG_MAX; omega)]
  simp

/-! ### ranges of the libc results on arbitrary text -/

theorem toSigned64_range (x : Nat) : -(2 ^ 63 : Int) ≤ toSigned 64 x ∧ toSigned 64 x < (2 ^ 63 : Int) := by
  unfold toSigned; split <;> omega

/-- the converse of `no_overflow_step`: a step the overflow test lets through keeps `i` an `unsigned long` -/
theorem step_fits (base i d : Nat) (_hb : 2 ≤ base) (hd : d < base)
    (h : ¬ (i > ULONG_MAX / base ∨ (i = ULONG_MAX / base ∧ d > ULONG_MAX % base))) : i * base + d ≤ ULONG_MAX := by
  have hdm := Nat.div_add_mod ULONG_MAX base
  have hle : i ≤ ULONG_MAX / base := by omega
  by_cases he : i = ULONG_MAX / base
  · have : d ≤ ULONG_MAX % base := by omega
    rw [he, Nat.mul_comm]; omega
  · have h1 : (i + 1) * base ≤ (ULONG_MAX / base) * base := Nat.mul_le_mul_right base (by omega)
    have h2 : (i + 1) * base = i * base + base := by rw [Nat.add_mul, Nat.one_mul]
    have h3 : (ULONG_MAX / base) * base = base * (ULONG_MAX / base) := Nat.mul_comm _ _
    omega

theorem strtoLoop_bound (base : Nat) (hb : 2 ≤ base) :
    ∀ (s : List Nat) (i n : Nat) (ovf : Bool), i ≤ ULONG_MAX →
      (strtoLoop base (ULONG_MAX / base) (ULONG_MAX % base) s i ovf n).1 ≤ ULONG_MAX := by
  intro s
  induction s with
  | nil => intro i n ovf h; simpa [strtoLoop] using h
  | cons c rest ih =>
    intro i n ovf h
    unfold strtoLoop
    split
    · exact h
    · rename_i d _
      split
      · exact h
      · rename_i hd
        split
        · exact ih i (n + 1) true h
        · rename_i hno
          exact ih (i * base + d) (n + 1) ovf (step_fits base i d hb (by omega) hno)

theorem basePrefix_base_ge (base : Nat) (hb : base = 0 ∨ 2 ≤ base) (s : List Nat) : 2 ≤ (basePrefix base s).1 := by
  unfold basePrefix
  split
  · split
    · simp
    · split <;> simp <;> omega
  · split <;> simp <;> omega

theorem strtoScan_i_le (s : List Nat) (base : Nat) (hb : base = 0 ∨ 2 ≤ base) : (strtoScan s base).i ≤ ULONG_MAX := by
  unfold strtoScan
  simp only []
  split
  · simp
  · split
    · simp
    · simp only []
      exact strtoLoop_bound _ (basePrefix_base_ge base hb _) _ 0 0 false (by simp)

theorem strtol_value_range (s : List Nat) (base : Nat) :
    -(2 ^ 63 : Int) ≤ (strtol s base).value ∧ (strtol s base).value < (2 ^ 63 : Int) := by
  unfold strtol LONG_MIN LONG_MAX
  simp only []
  by_cases hc : (!(strtoScan (cstr s) base).conv) = true
  · rw [if_pos hc]; simp
  · rw [if_neg hc]
    by_cases ho : ((strtoScan (cstr s) base).overflow ||
        decide ((strtoScan (cstr s) base).i > if (strtoScan (cstr s) base).negative = true then 2 ^ 63 else 2 ^ 63 - 1)) = true
    · rw [if_pos ho]
      by_cases hn : (strtoScan (cstr s) base).negative = true
      · simp [hn]
      · simp [hn]
    · rw [if_neg ho]
      by_cases hn : (strtoScan (cstr s) base).negative = true
      · simp only [hn, if_true]; exact toSigned64_range _
      · simp only [hn]; exact toSigned64_range _

theorem strtoul_value_lt (s : List Nat) (base : Nat) (hb : base = 0 ∨ 2 ≤ base) : (strtoul s base).value < 2 ^ 64 := by
  unfold strtoul
  simp only []
  split
  · simp
  · split
    · simp [ULONG_MAX]
    · split
      · simp only; unfold wrapW; omega
      · simp only
        have := strtoScan_i_le (cstr s) base hb
        unfold ULONG_MAX at this; omega

/-! ### `endptr` stays inside the text -/

theorem takeWhile_length_le {α : Type} (p : α → Bool) : ∀ l : List α, (l.takeWhile p).length ≤ l.length := by
  intro l
  induction l with
  | nil => simp
  | cons a t ih => simp only [List.takeWhile_cons]; split <;> simp; omega

theorem strtoLoop_count_le (base cutoff cutlim : Nat) : ∀ (s : List Nat) (i n : Nat) (ovf : Bool),
    (strtoLoop base cutoff cutlim s i ovf n).2.2 ≤ n + s.length := by
  intro s
  induction s with
  | nil => intro i n ovf; simp [strtoLoop]
  | cons c rest ih =>
    intro i n ovf
    unfold strtoLoop
    split
    · simp
    · split
      · simp
      · split
        · have := ih i (n + 1) true; simp only [List.length_cons]; omega
        · rename_i d _ _ _
          have := ih (i * base + d) (n + 1) ovf; simp only [List.length_cons]; omega

theorem basePrefix_skip_le (base : Nat) (s : List Nat) : (basePrefix base s).2 ≤ s.length := by
  unfold basePrefix
  split
  · split
    · rename_i h1 h2
      simp only
      match s, h1, h2 with
      | [_], _, h2 => simp [toUpper] at h2
      | _ :: _ :: _, _, _ => simp
    · split <;> simp
  · split <;> simp

theorem signAt_skip_le (c0 : Nat) : (signAt c0).2 ≤ 1 := by
  unfold signAt; split <;> (try split) <;> simp

/-- `endptr` never points past the terminator -/
theorem strtoScan_endp_le (s : List Nat) (base : Nat) : (strtoScan s base).endp ≤ s.length := by
  unfold strtoScan
  simp only []
  have hp0 : (List.takeWhile Num.isSpace s).length ≤ s.length := takeWhile_length_le _ _
  split
  · simp
  · rename_i c0 t hd
    have hlen1 : 1 ≤ (s.drop (List.takeWhile Num.isSpace s).length).length := by rw [hd]; simp
    rw [List.length_drop] at hlen1
    have hs := signAt_skip_le c0
    have hb := basePrefix_skip_le base (s.drop ((List.takeWhile Num.isSpace s).length + (signAt c0).2))
    rw [List.length_drop] at hb
    split
    · simp only []
      split
      · omega
      · omega
    · simp only []
      have := strtoLoop_count_le (basePrefix base (s.drop ((List.takeWhile Num.isSpace s).length + (signAt c0).2))).1
        (ULONG_MAX / (basePrefix base (s.drop ((List.takeWhile Num.isSpace s).length + (signAt c0).2))).1)
        (ULONG_MAX % (basePrefix base (s.drop ((List.takeWhile Num.isSpace s).length + (signAt c0).2))).1)
        (s.drop ((List.takeWhile Num.isSpace s).length + (signAt c0).2 + (basePrefix base (s.drop ((List.takeWhile Num.isSpace s).length + (signAt c0).2))).2)) 0 0 false
      rw [List.length_drop] at this
      omega

theorem cstr_length_le (s : List Nat) : (cstr s).length ≤ s.length := takeWhile_length_le _ _

theorem strtol_endp (s : List Nat) (base : Nat) : (strtol s base).endp = (strtoScan (cstr s) base).endp := by
  unfold strtol
  simp only []
  split
  · rfl
  · split <;> (split <;> rfl)

theorem strtol_endp_le (s : List Nat) (base : Nat) : (strtol s base).endp ≤ s.length := by
  have h := strtoScan_endp_le (cstr s) base
  have h2 := cstr_length_le s
  rw [strtol_endp]; omega

theorem strtoul_endp_le (s : List Nat) (base : Nat) : (strtoul s base).endp ≤ s.length := by
  have h := strtoScan_endp_le (cstr s) base
  have h2 := cstr_length_le s
  unfold strtoul
  simp only []
  split
  · show (strtoScan (cstr s) base).endp ≤ _; omega
  · split <;> (show (strtoScan (cstr s) base).endp ≤ _; omega)


end StVerif.Lemmas.Num
