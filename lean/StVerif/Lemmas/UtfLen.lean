/-
  Length facts about the conversions: a buffer the model returns holds exactly the measured number
  of units, and text converted to UTF-8 from UTF-16 / UTF-32 is at most four bytes per source unit
  (used by C11 for wide-text format arguments: the converted text stays below 2^31 bytes).
-/
import StVerif.Lemmas.UtfRef

namespace StVerif.Lemmas.Utf
open StVerif StVerif.Utf StVerif.Generated

/-- two-pass consistency: whenever the model returns a buffer, the fill pass stored exactly the
    measured number of units -/
theorem convert_ok_length (src dst : Enc) (m : Mode) (subst : Bool) (xs out : List Nat)
    (h : convert src dst m subst (some xs) = .ok out) : out.length = Utf.measure src dst xs := by
  unfold convert at h
  by_cases hh : xs.length ≥ hugeBufferSize
  · simp [hh] at h
  · simp only [if_neg hh] at h
    by_cases hn : Utf.measure src dst xs = 0
    · simp only [if_pos hn] at h; injection h with h; subst h; simp [hn]
    · simp only [if_neg hn] at h
      by_cases hgt : (fill (stepCh src dst m subst) (decode src xs)).out.length > Utf.measure src dst xs
      · simp [hgt] at h
      · simp only [if_neg hgt] at h
        cases hs : (fill (stepCh src dst m subst) (decode src xs)).status with
        | assertFail msg => rw [hs] at h; cases h
        | error k => rw [hs] at h; cases h
        | done =>
          rw [hs] at h; simp only at h
          by_cases he : (fill (stepCh src dst m subst) (decode src xs)).out.length = Utf.measure src dst xs
          · simp only [if_pos he] at h; injection h with h; rw [← h]; exact he
          · simp [he] at h

theorem utf8Measure_le (ch : Nat) : utf8Measure ch ≤ 4 := by
  unfold utf8Measure
  rw [sub8_len]
  repeat' split
  all_goals omega

theorem decodeUtf16_length_le_aux : ∀ (n : Nat) (xs : List Nat), xs.length ≤ n → (decodeUtf16 xs).length ≤ xs.length
  | _, [], _ => by simp [decodeUtf16]
  | 0, _ :: _, h => by simp at h
  | n + 1, u0 :: rest, h => by
    have ih := decodeUtf16_length_le_aux n rest (by simp at h; omega)
    rw [decodeUtf16.eq_def]
    simp only []
    split
    · cases rest with
      | nil => simp [decodeUtf16]
      | cons u1 r =>
        have ih2 := decodeUtf16_length_le_aux n r (by simp at h; omega)
        simp only []
        repeat' split
        all_goals (simp only [List.length_cons] at *; omega)
    · simp only [List.length_cons]; omega

theorem decodeUtf16_length_le (xs : List Nat) : (decodeUtf16 xs).length ≤ xs.length :=
  decodeUtf16_length_le_aux xs.length xs (Nat.le_refl _)

theorem sum_map_le (f : Nat → Nat) (k : Nat) (h : ∀ x, f x ≤ k) (xs : List Nat) : (xs.map f).sum ≤ k * xs.length := by
  induction xs with
  | nil => simp
  | cons x r ih => simp only [List.map_cons, List.sum_cons, List.length_cons]; have := h x; rw [Nat.mul_add]; omega

theorem measure_wide_utf8_le (src : Enc) (hs : src = .utf16 ∨ src = .utf32) (xs : List Nat) :
    Utf.measure src .utf8 xs ≤ 4 * xs.length := by
  unfold Utf.measure
  have h1 := sum_map_le (measureCh src .utf8) 4 (by
    intro x; rcases hs with rfl | rfl <;> simp only [measureCh] <;> exact utf8Measure_le x) (decode src xs)
  have h2 : (decode src xs).length ≤ xs.length := by
    rcases hs with rfl | rfl
    · exact decodeUtf16_length_le xs
    · simp [decode]
  calc _ ≤ 4 * (decode src xs).length := h1
    _ ≤ 4 * xs.length := Nat.mul_le_mul_left 4 h2


/-- UTF-16 / UTF-32 text converted to UTF-8: at most four bytes per source unit -/
theorem convert_wide_utf8_length_le (src : Enc) (hs : src = .utf16 ∨ src = .utf32) (m : Mode) (subst : Bool) (xs out : List Nat)
    (h : convert src .utf8 m subst (some xs) = .ok out) : out.length ≤ 4 * xs.length := by
  rw [convert_ok_length src .utf8 m subst xs out h]
  exact measure_wide_utf8_le src hs xs

end StVerif.Lemmas.Utf
