import StVerif.Lemmas.Utf

namespace StVerif.Lemmas.Utf
open StVerif StVerif.Utf StVerif.Bits StVerif.Generated
open StVerif.Spec.Unicode

theorem Bytes_cons {a : Nat} {l : List Nat} : Bytes (a :: l) ↔ a < 256 ∧ Bytes l := by
  simp [Bytes, UnitsLt]

theorem UnitsLt_cons {n a : Nat} {l : List Nat} : UnitsLt n (a :: l) ↔ a < n ∧ UnitsLt n l := by
  simp [UnitsLt]

/-- pointwise relation between two lists (core Lean has no `Forall₂`) -/
inductive All2 {α β : Type} (R : α → β → Prop) : List α → List β → Prop
  | nil : All2 R [] []
  | cons {a b as bs} : R a b → All2 R as bs → All2 R (a :: as) (b :: bs)

/-- an extracted value of a UTF-8 / UTF-16 source vs. the segment it came from:
    a sequence yields its value (never confusable with an error flag), a malformed unit
    yields a flagged value (which is also above U+10FFFF) -/
def RelF (ch : Nat) : Seg → Prop
  | .good v _ => ch = v ∧ v < 0x400000
  | .bad _ => charError ch ≠ 0 ∧ ch > 0x10FFFF

theorem rel_err1 (u : Nat) : RelF (errorChar errIncompleteUtf8) (.bad u) := by
  simp only [RelF]; decide
theorem rel_err2 (u : Nat) : RelF (errorChar errIncompleteSurrogate) (.bad u) := by
  simp only [RelF]; decide
theorem rel_err3 (u : Nat) : RelF (errorChar errInvalidUtf8) (.bad u) := by
  simp only [RelF]; decide

theorem not_cont {b : Nat} (h : b < 256) (hc : isCont b = true) : ¬ (b &&& 0xC0 ≠ 0x80) := by
  rw [cont_iff' h, hc]; simp
theorem is_not_cont {b : Nat} (h : b < 256) (hc : ¬ isCont b = true) : b &&& 0xC0 ≠ 0x80 := by
  rw [cont_iff' h]; simpa using hc

/-- the model's decoder and the declarative segmentation walk the input in lock step -/
theorem decode_rel_utf8 (xs : List Nat) : Bytes xs → All2 RelF (decodeUtf8 xs) (segUtf8 xs) := by
  induction xs using segUtf8.induct with
  | case1 => intro _; rw [decodeUtf8.eq_def, segUtf8.eq_def]; exact All2.nil
  | case2 b0 rest hlt ih =>
    intro h; rw [Bytes_cons] at h
    rw [decodeUtf8.eq_def, segUtf8.eq_def]; simp only [hlt, if_true]
    exact All2.cons ⟨rfl, by omega⟩ (ih h.2)
  | case3 b0 hn hr b1 r hc ih1 ih2 =>
    intro h; simp only [Bytes_cons] at h
    obtain ⟨h0, h1, hr'⟩ := h
    have c1 := isCont_range hc
    rw [decodeUtf8.eq_def, segUtf8.eq_def]
    simp only [hn, if_false, lead2_iff' h0, hr, and_self, if_true, not_cont h1 hc, hc]
    exact All2.cons ⟨val2 b0 b1 hr c1, by omega⟩ (ih2 hr')
  | case4 b0 hn hr b1 r hc ih1 =>
    intro h; simp only [Bytes_cons] at h
    obtain ⟨h0, h1, hr'⟩ := h
    rw [decodeUtf8.eq_def, segUtf8.eq_def]
    simp only [hn, if_false, lead2_iff' h0, hr, and_self, if_true, if_pos (is_not_cont h1 hc), if_neg hc]
    exact All2.cons (rel_err1 _) (ih1 (Bytes_cons.mpr ⟨h1, hr'⟩))
  | case5 b0 rest hn hr hno ih =>
    intro h; rw [Bytes_cons] at h
    have : rest = [] := by cases rest with | nil => rfl | cons a l => exact absurd rfl (hno a l)
    subst this
    rw [decodeUtf8.eq_def, segUtf8.eq_def]
    simp only [hn, if_false, lead2_iff' h.1, hr, and_self, if_true]
    exact All2.cons (rel_err1 _) (ih h.2)
  | case6 b0 hn hn2 hr b1 b2 r hc ih1 ih2 =>
    intro h; simp only [Bytes_cons] at h
    obtain ⟨h0, h1, h2, hr'⟩ := h
    rw [Bool.and_eq_true] at hc
    have c1 := isCont_range hc.1
    have c2 := isCont_range hc.2
    have l2 : ¬ (b0 &&& 0xE0 = 0xC0) := by rw [lead2_iff' h0]; exact hn2
    have m : ¬ (b1 &&& 0xC0 ≠ 0x80 ∨ b2 &&& 0xC0 ≠ 0x80) := by
      intro hm; rcases hm with hm | hm
      · exact not_cont h1 hc.1 hm
      · exact not_cont h2 hc.2 hm
    rw [decodeUtf8.eq_def, segUtf8.eq_def]
    simp only [hn, if_false, l2, hn2, lead3_iff' h0, hr, and_self, if_true, if_neg m, hc.1, hc.2, Bool.and_self]
    exact All2.cons ⟨val3 b0 b1 b2 hr c1 c2, by omega⟩ (ih2 hr')
  | case7 b0 hn hn2 hr b1 b2 r hc ih1 =>
    intro h; simp only [Bytes_cons] at h
    obtain ⟨h0, h1, h2, hr'⟩ := h
    have l2 : ¬ (b0 &&& 0xE0 = 0xC0) := by rw [lead2_iff' h0]; exact hn2
    have m : b1 &&& 0xC0 ≠ 0x80 ∨ b2 &&& 0xC0 ≠ 0x80 := by
      rw [Bool.and_eq_true] at hc
      by_cases q1 : isCont b1 = true
      · exact Or.inr (is_not_cont h2 (fun q2 => hc ⟨q1, q2⟩))
      · exact Or.inl (is_not_cont h1 q1)
    rw [decodeUtf8.eq_def, segUtf8.eq_def]
    simp only [hn, if_false, l2, hn2, lead3_iff' h0, hr, and_self, if_true, if_pos m, if_neg hc]
    exact All2.cons (rel_err1 _) (ih1 (Bytes_cons.mpr ⟨h1, Bytes_cons.mpr ⟨h2, hr'⟩⟩))
  | case8 b0 rest hn hn2 hr hno ih =>
    intro h; rw [Bytes_cons] at h
    have l2 : ¬ (b0 &&& 0xE0 = 0xC0) := by rw [lead2_iff' h.1]; exact hn2
    rw [decodeUtf8.eq_def, segUtf8.eq_def]
    simp only [hn, if_false, l2, hn2, lead3_iff' h.1, hr, and_self, if_true]
    rcases rest with _ | ⟨b1, _ | ⟨b2, r⟩⟩
    · exact All2.cons (rel_err1 _) (ih h.2)
    · exact All2.cons (rel_err1 _) (ih h.2)
    · exact absurd rfl (hno b1 b2 r)
  | case9 b0 hn hn2 hn3 hr b1 b2 b3 r hc ih1 ih2 =>
    intro h; simp only [Bytes_cons] at h
    obtain ⟨h0, h1, h2, h3, hr'⟩ := h
    simp only [Bool.and_eq_true] at hc
    obtain ⟨⟨hc1, hc2⟩, hc3⟩ := hc
    have c1 := isCont_range hc1
    have c2 := isCont_range hc2
    have c3 := isCont_range hc3
    have l2 : ¬ (b0 &&& 0xE0 = 0xC0) := by rw [lead2_iff' h0]; exact hn2
    have l3 : ¬ (b0 &&& 0xF0 = 0xE0) := by rw [lead3_iff' h0]; exact hn3
    have m : ¬ (b1 &&& 0xC0 ≠ 0x80 ∨ b2 &&& 0xC0 ≠ 0x80 ∨ b3 &&& 0xC0 ≠ 0x80) := by
      intro hm; rcases hm with hm | hm | hm
      · exact not_cont h1 hc1 hm
      · exact not_cont h2 hc2 hm
      · exact not_cont h3 hc3 hm
    rw [decodeUtf8.eq_def, segUtf8.eq_def]
    simp only [hn, if_false, l2, l3, hn2, hn3, lead4_iff' h0, hr, and_self, if_true, if_neg m, hc1, hc2, hc3, Bool.and_self]
    exact All2.cons ⟨val4 b0 b1 b2 b3 hr c1 c2 c3, by omega⟩ (ih2 hr')
  | case10 b0 hn hn2 hn3 hr b1 b2 b3 r hc ih1 =>
    intro h; simp only [Bytes_cons] at h
    obtain ⟨h0, h1, h2, h3, hr'⟩ := h
    have l2 : ¬ (b0 &&& 0xE0 = 0xC0) := by rw [lead2_iff' h0]; exact hn2
    have l3 : ¬ (b0 &&& 0xF0 = 0xE0) := by rw [lead3_iff' h0]; exact hn3
    have m : b1 &&& 0xC0 ≠ 0x80 ∨ b2 &&& 0xC0 ≠ 0x80 ∨ b3 &&& 0xC0 ≠ 0x80 := by
      simp only [Bool.and_eq_true] at hc
      by_cases q1 : isCont b1 = true
      · by_cases q2 : isCont b2 = true
        · exact Or.inr (Or.inr (is_not_cont h3 (fun q3 => hc ⟨⟨q1, q2⟩, q3⟩)))
        · exact Or.inr (Or.inl (is_not_cont h2 q2))
      · exact Or.inl (is_not_cont h1 q1)
    rw [decodeUtf8.eq_def, segUtf8.eq_def]
    simp only [hn, if_false, l2, l3, hn2, hn3, lead4_iff' h0, hr, and_self, if_true, if_pos m, if_neg hc]
    exact All2.cons (rel_err1 _) (ih1 (Bytes_cons.mpr ⟨h1, Bytes_cons.mpr ⟨h2, Bytes_cons.mpr ⟨h3, hr'⟩⟩⟩))
  | case11 b0 rest hn hn2 hn3 hr hno ih =>
    intro h; rw [Bytes_cons] at h
    have l2 : ¬ (b0 &&& 0xE0 = 0xC0) := by rw [lead2_iff' h.1]; exact hn2
    have l3 : ¬ (b0 &&& 0xF0 = 0xE0) := by rw [lead3_iff' h.1]; exact hn3
    rw [decodeUtf8.eq_def, segUtf8.eq_def]
    simp only [hn, if_false, l2, l3, hn2, hn3, lead4_iff' h.1, hr, and_self, if_true]
    rcases rest with _ | ⟨b1, _ | ⟨b2, _ | ⟨b3, r⟩⟩⟩
    · exact All2.cons (rel_err1 _) (ih h.2)
    · exact All2.cons (rel_err1 _) (ih h.2)
    · exact All2.cons (rel_err1 _) (ih h.2)
    · exact absurd rfl (hno b1 b2 b3 r)
  | case12 b0 rest hn hn2 hn3 hn4 ih =>
    intro h; rw [Bytes_cons] at h
    have l2 : ¬ (b0 &&& 0xE0 = 0xC0) := by rw [lead2_iff' h.1]; exact hn2
    have l3 : ¬ (b0 &&& 0xF0 = 0xE0) := by rw [lead3_iff' h.1]; exact hn3
    have l4 : ¬ (b0 &&& 0xF8 = 0xF0) := by rw [lead4_iff' h.1]; exact hn4
    rw [decodeUtf8.eq_def, segUtf8.eq_def]
    simp only [hn, if_false, l2, l3, l4, hn2, hn3, hn4]
    exact All2.cons (rel_err3 _) (ih h.2)

end StVerif.Lemmas.Utf

namespace StVerif.Lemmas.Utf
open StVerif StVerif.Utf StVerif.Bits StVerif.Generated
open StVerif.Spec.Unicode

/-- what a segment contributes to the repaired string -/
def Seg.repair : Seg → List Nat
  | .good _ us => us
  | .bad _ => badcharSubstituteUtf8

theorem wf_cons_good (v : Nat) (us : List Nat) (l : List Seg) :
    ((Seg.good v us :: l).all Seg.isGood = true) ↔ (l.all Seg.isGood = true) := by
  simp [Seg.isGood]
theorem wf_cons_bad (u : Nat) (l : List Seg) : ¬ ((Seg.bad u :: l).all Seg.isGood = true) := by
  simp [Seg.isGood]

/-- `validate_utf8` accepts exactly the texts without a malformed unit -/
theorem validate_iff_seg (xs : List Nat) : Bytes xs → (validateUtf8 xs = 0 ↔ (segUtf8 xs).all Seg.isGood = true) := by
  induction xs using segUtf8.induct with
  | case1 => intro _; rw [validateUtf8.eq_def, segUtf8.eq_def]; simp
  | case2 b0 rest hlt ih =>
    intro h; rw [Bytes_cons] at h
    rw [validateUtf8.eq_def, segUtf8.eq_def]; simp only [hlt, if_true]
    rw [wf_cons_good]; exact ih h.2
  | case3 b0 hn hr b1 r hc ih1 ih2 =>
    intro h; simp only [Bytes_cons] at h
    obtain ⟨h0, h1, hr'⟩ := h
    rw [validateUtf8.eq_def, segUtf8.eq_def]
    simp only [hn, if_false, lead2_iff' h0, hr, and_self, if_true, not_cont h1 hc, hc]
    rw [wf_cons_good]; exact ih2 hr'
  | case4 b0 hn hr b1 r hc ih1 =>
    intro h; simp only [Bytes_cons] at h
    obtain ⟨h0, h1, hr'⟩ := h
    rw [validateUtf8.eq_def, segUtf8.eq_def]
    simp only [hn, if_false, lead2_iff' h0, hr, and_self, if_true, if_pos (is_not_cont h1 hc), if_neg hc]
    exact ⟨fun h => absurd h (by decide), fun h => absurd h (wf_cons_bad _ _)⟩
  | case5 b0 rest hn hr hno ih =>
    intro h; rw [Bytes_cons] at h
    have : rest = [] := by cases rest with | nil => rfl | cons a l => exact absurd rfl (hno a l)
    subst this
    rw [validateUtf8.eq_def, segUtf8.eq_def]
    simp only [hn, if_false, lead2_iff' h.1, hr, and_self, if_true]
    exact ⟨fun h => absurd h (by decide), fun h => absurd h (wf_cons_bad _ _)⟩
  | case6 b0 hn hn2 hr b1 b2 r hc ih1 ih2 =>
    intro h; simp only [Bytes_cons] at h
    obtain ⟨h0, h1, h2, hr'⟩ := h
    rw [Bool.and_eq_true] at hc
    have l2 : ¬ (b0 &&& 0xE0 = 0xC0) := by rw [lead2_iff' h0]; exact hn2
    rw [validateUtf8.eq_def, segUtf8.eq_def]
    simp only [hn, if_false, l2, hn2, lead3_iff' h0, hr, and_self, if_true, if_neg (not_cont h1 hc.1), if_neg (not_cont h2 hc.2),
      hc.1, hc.2, Bool.and_self]
    rw [wf_cons_good]; exact ih2 hr'
  | case7 b0 hn hn2 hr b1 b2 r hc ih1 =>
    intro h; simp only [Bytes_cons] at h
    obtain ⟨h0, h1, h2, hr'⟩ := h
    have l2 : ¬ (b0 &&& 0xE0 = 0xC0) := by rw [lead2_iff' h0]; exact hn2
    rw [validateUtf8.eq_def, segUtf8.eq_def]
    simp only [hn, if_false, l2, hn2, lead3_iff' h0, hr, and_self, if_true, if_neg hc]
    refine ⟨fun hv => ?_, fun h => absurd h (wf_cons_bad _ _)⟩
    exfalso
    rw [Bool.and_eq_true] at hc
    by_cases q1 : isCont b1 = true
    · rw [if_neg (not_cont h1 q1)] at hv
      have q2 : ¬ isCont b2 = true := fun q2 => hc ⟨q1, q2⟩
      rw [if_pos (is_not_cont h2 q2)] at hv; exact absurd hv (by decide)
    · rw [if_pos (is_not_cont h1 q1)] at hv; exact absurd hv (by decide)
  | case8 b0 rest hn hn2 hr hno ih =>
    intro h; rw [Bytes_cons] at h
    have l2 : ¬ (b0 &&& 0xE0 = 0xC0) := by rw [lead2_iff' h.1]; exact hn2
    rw [validateUtf8.eq_def, segUtf8.eq_def]
    simp only [hn, if_false, l2, hn2, lead3_iff' h.1, hr, and_self, if_true]
    rcases rest with _ | ⟨b1, _ | ⟨b2, r⟩⟩
    · exact ⟨fun h => absurd h (by decide), fun h => absurd h (wf_cons_bad _ _)⟩
    · exact ⟨fun h => absurd h (by decide), fun h => absurd h (wf_cons_bad _ _)⟩
    · exact absurd rfl (hno b1 b2 r)
  | case9 b0 hn hn2 hn3 hr b1 b2 b3 r hc ih1 ih2 =>
    intro h; simp only [Bytes_cons] at h
    obtain ⟨h0, h1, h2, h3, hr'⟩ := h
    simp only [Bool.and_eq_true] at hc
    obtain ⟨⟨hc1, hc2⟩, hc3⟩ := hc
    have l2 : ¬ (b0 &&& 0xE0 = 0xC0) := by rw [lead2_iff' h0]; exact hn2
    have l3 : ¬ (b0 &&& 0xF0 = 0xE0) := by rw [lead3_iff' h0]; exact hn3
    rw [validateUtf8.eq_def, segUtf8.eq_def]
    simp only [hn, if_false, l2, l3, hn2, hn3, lead4_iff' h0, hr, and_self, if_true, if_neg (not_cont h1 hc1),
      if_neg (not_cont h2 hc2), if_neg (not_cont h3 hc3), hc1, hc2, hc3, Bool.and_self]
    rw [wf_cons_good]; exact ih2 hr'
  | case10 b0 hn hn2 hn3 hr b1 b2 b3 r hc ih1 =>
    intro h; simp only [Bytes_cons] at h
    obtain ⟨h0, h1, h2, h3, hr'⟩ := h
    have l2 : ¬ (b0 &&& 0xE0 = 0xC0) := by rw [lead2_iff' h0]; exact hn2
    have l3 : ¬ (b0 &&& 0xF0 = 0xE0) := by rw [lead3_iff' h0]; exact hn3
    rw [validateUtf8.eq_def, segUtf8.eq_def]
    simp only [hn, if_false, l2, l3, hn2, hn3, lead4_iff' h0, hr, and_self, if_true, if_neg hc]
    refine ⟨fun hv => ?_, fun h => absurd h (wf_cons_bad _ _)⟩
    exfalso
    simp only [Bool.and_eq_true] at hc
    by_cases q1 : isCont b1 = true
    · rw [if_neg (not_cont h1 q1)] at hv
      by_cases q2 : isCont b2 = true
      · rw [if_neg (not_cont h2 q2)] at hv
        have q3 : ¬ isCont b3 = true := fun q3 => hc ⟨⟨q1, q2⟩, q3⟩
        rw [if_pos (is_not_cont h3 q3)] at hv; exact absurd hv (by decide)
      · rw [if_pos (is_not_cont h2 q2)] at hv; exact absurd hv (by decide)
    · rw [if_pos (is_not_cont h1 q1)] at hv; exact absurd hv (by decide)
  | case11 b0 rest hn hn2 hn3 hr hno ih =>
    intro h; rw [Bytes_cons] at h
    have l2 : ¬ (b0 &&& 0xE0 = 0xC0) := by rw [lead2_iff' h.1]; exact hn2
    have l3 : ¬ (b0 &&& 0xF0 = 0xE0) := by rw [lead3_iff' h.1]; exact hn3
    rw [validateUtf8.eq_def, segUtf8.eq_def]
    simp only [hn, if_false, l2, l3, hn2, hn3, lead4_iff' h.1, hr, and_self, if_true]
    rcases rest with _ | ⟨b1, _ | ⟨b2, _ | ⟨b3, r⟩⟩⟩
    · exact ⟨fun h => absurd h (by decide), fun h => absurd h (wf_cons_bad _ _)⟩
    · exact ⟨fun h => absurd h (by decide), fun h => absurd h (wf_cons_bad _ _)⟩
    · exact ⟨fun h => absurd h (by decide), fun h => absurd h (wf_cons_bad _ _)⟩
    · exact absurd rfl (hno b1 b2 b3 r)
  | case12 b0 rest hn hn2 hn3 hn4 ih =>
    intro h; rw [Bytes_cons] at h
    have l2 : ¬ (b0 &&& 0xE0 = 0xC0) := by rw [lead2_iff' h.1]; exact hn2
    have l3 : ¬ (b0 &&& 0xF0 = 0xE0) := by rw [lead3_iff' h.1]; exact hn3
    have l4 : ¬ (b0 &&& 0xF8 = 0xF0) := by rw [lead4_iff' h.1]; exact hn4
    rw [validateUtf8.eq_def, segUtf8.eq_def]
    simp only [hn, if_false, l2, l3, l4, hn2, hn3, hn4]
    exact ⟨fun h => absurd h (by decide), fun h => absurd h (wf_cons_bad _ _)⟩

/-- `cleanup_utf8` keeps every sequence and replaces every malformed unit by U+FFFD -/
theorem cleanup_eq_seg (xs : List Nat) : Bytes xs → cleanupUtf8 xs = (segUtf8 xs).flatMap Seg.repair := by
  induction xs using segUtf8.induct with
  | case1 => intro _; rw [cleanupUtf8.eq_def, segUtf8.eq_def]; rfl
  | case2 b0 rest hlt ih =>
    intro h; rw [Bytes_cons] at h
    rw [cleanupUtf8.eq_def, segUtf8.eq_def]; simp only [hlt, if_true]
    rw [List.flatMap_cons, ← ih h.2]; rfl
  | case3 b0 hn hr b1 r hc ih1 ih2 =>
    intro h; simp only [Bytes_cons] at h
    obtain ⟨h0, h1, hr'⟩ := h
    rw [cleanupUtf8.eq_def, segUtf8.eq_def]
    simp only [hn, if_false, lead2_iff' h0, hr, and_self, if_true, not_cont h1 hc, hc]
    rw [List.flatMap_cons, ← ih2 hr']; rfl
  | case4 b0 hn hr b1 r hc ih1 =>
    intro h; simp only [Bytes_cons] at h
    obtain ⟨h0, h1, hr'⟩ := h
    rw [cleanupUtf8.eq_def, segUtf8.eq_def]
    simp only [hn, if_false, lead2_iff' h0, hr, and_self, if_true, if_pos (is_not_cont h1 hc), if_neg hc]
    rw [List.flatMap_cons, ← ih1 (Bytes_cons.mpr ⟨h1, hr'⟩)]; rfl
  | case5 b0 rest hn hr hno ih =>
    intro h; rw [Bytes_cons] at h
    have : rest = [] := by cases rest with | nil => rfl | cons a l => exact absurd rfl (hno a l)
    subst this
    rw [cleanupUtf8.eq_def, segUtf8.eq_def]
    simp only [hn, if_false, lead2_iff' h.1, hr, and_self, if_true]
    rw [List.flatMap_cons, ← ih h.2]; rfl
  | case6 b0 hn hn2 hr b1 b2 r hc ih1 ih2 =>
    intro h; simp only [Bytes_cons] at h
    obtain ⟨h0, h1, h2, hr'⟩ := h
    rw [Bool.and_eq_true] at hc
    have l2 : ¬ (b0 &&& 0xE0 = 0xC0) := by rw [lead2_iff' h0]; exact hn2
    have m : ¬ (b1 &&& 0xC0 ≠ 0x80 ∨ b2 &&& 0xC0 ≠ 0x80) := by
      intro hm; rcases hm with hm | hm
      · exact not_cont h1 hc.1 hm
      · exact not_cont h2 hc.2 hm
    rw [cleanupUtf8.eq_def, segUtf8.eq_def]
    simp only [hn, if_false, l2, hn2, lead3_iff' h0, hr, and_self, if_true, if_neg m, hc.1, hc.2, Bool.and_self]
    rw [List.flatMap_cons, ← ih2 hr']; rfl
  | case7 b0 hn hn2 hr b1 b2 r hc ih1 =>
    intro h; simp only [Bytes_cons] at h
    obtain ⟨h0, h1, h2, hr'⟩ := h
    have l2 : ¬ (b0 &&& 0xE0 = 0xC0) := by rw [lead2_iff' h0]; exact hn2
    have m : b1 &&& 0xC0 ≠ 0x80 ∨ b2 &&& 0xC0 ≠ 0x80 := by
      rw [Bool.and_eq_true] at hc
      by_cases q1 : isCont b1 = true
      · exact Or.inr (is_not_cont h2 (fun q2 => hc ⟨q1, q2⟩))
      · exact Or.inl (is_not_cont h1 q1)
    rw [cleanupUtf8.eq_def, segUtf8.eq_def]
    simp only [hn, if_false, l2, hn2, lead3_iff' h0, hr, and_self, if_true, if_pos m, if_neg hc]
    rw [List.flatMap_cons, ← ih1 (Bytes_cons.mpr ⟨h1, Bytes_cons.mpr ⟨h2, hr'⟩⟩)]; rfl
  | case8 b0 rest hn hn2 hr hno ih =>
    intro h; rw [Bytes_cons] at h
    have l2 : ¬ (b0 &&& 0xE0 = 0xC0) := by rw [lead2_iff' h.1]; exact hn2
    rw [cleanupUtf8.eq_def, segUtf8.eq_def]
    simp only [hn, if_false, l2, hn2, lead3_iff' h.1, hr, and_self, if_true]
    rcases rest with _ | ⟨b1, _ | ⟨b2, r⟩⟩
    · rw [List.flatMap_cons, ← ih h.2]; rfl
    · rw [List.flatMap_cons, ← ih h.2]; rfl
    · exact absurd rfl (hno b1 b2 r)
  | case9 b0 hn hn2 hn3 hr b1 b2 b3 r hc ih1 ih2 =>
    intro h; simp only [Bytes_cons] at h
    obtain ⟨h0, h1, h2, h3, hr'⟩ := h
    simp only [Bool.and_eq_true] at hc
    obtain ⟨⟨hc1, hc2⟩, hc3⟩ := hc
    have l2 : ¬ (b0 &&& 0xE0 = 0xC0) := by rw [lead2_iff' h0]; exact hn2
    have l3 : ¬ (b0 &&& 0xF0 = 0xE0) := by rw [lead3_iff' h0]; exact hn3
    have m : ¬ (b1 &&& 0xC0 ≠ 0x80 ∨ b2 &&& 0xC0 ≠ 0x80 ∨ b3 &&& 0xC0 ≠ 0x80) := by
      intro hm; rcases hm with hm | hm | hm
      · exact not_cont h1 hc1 hm
      · exact not_cont h2 hc2 hm
      · exact not_cont h3 hc3 hm
    rw [cleanupUtf8.eq_def, segUtf8.eq_def]
    simp only [hn, if_false, l2, l3, hn2, hn3, lead4_iff' h0, hr, and_self, if_true, if_neg m, hc1, hc2, hc3, Bool.and_self]
    rw [List.flatMap_cons, ← ih2 hr']; rfl
  | case10 b0 hn hn2 hn3 hr b1 b2 b3 r hc ih1 =>
    intro h; simp only [Bytes_cons] at h
    obtain ⟨h0, h1, h2, h3, hr'⟩ := h
    have l2 : ¬ (b0 &&& 0xE0 = 0xC0) := by rw [lead2_iff' h0]; exact hn2
    have l3 : ¬ (b0 &&& 0xF0 = 0xE0) := by rw [lead3_iff' h0]; exact hn3
    have m : b1 &&& 0xC0 ≠ 0x80 ∨ b2 &&& 0xC0 ≠ 0x80 ∨ b3 &&& 0xC0 ≠ 0x80 := by
      simp only [Bool.and_eq_true] at hc
      by_cases q1 : isCont b1 = true
      · by_cases q2 : isCont b2 = true
        · exact Or.inr (Or.inr (is_not_cont h3 (fun q3 => hc ⟨⟨q1, q2⟩, q3⟩)))
        · exact Or.inr (Or.inl (is_not_cont h2 q2))
      · exact Or.inl (is_not_cont h1 q1)
    rw [cleanupUtf8.eq_def, segUtf8.eq_def]
    simp only [hn, if_false, l2, l3, hn2, hn3, lead4_iff' h0, hr, and_self, if_true, if_pos m, if_neg hc]
    rw [List.flatMap_cons, ← ih1 (Bytes_cons.mpr ⟨h1, Bytes_cons.mpr ⟨h2, Bytes_cons.mpr ⟨h3, hr'⟩⟩⟩)]; rfl
  | case11 b0 rest hn hn2 hn3 hr hno ih =>
    intro h; rw [Bytes_cons] at h
    have l2 : ¬ (b0 &&& 0xE0 = 0xC0) := by rw [lead2_iff' h.1]; exact hn2
    have l3 : ¬ (b0 &&& 0xF0 = 0xE0) := by rw [lead3_iff' h.1]; exact hn3
    rw [cleanupUtf8.eq_def, segUtf8.eq_def]
    simp only [hn, if_false, l2, l3, hn2, hn3, lead4_iff' h.1, hr, and_self, if_true]
    rcases rest with _ | ⟨b1, _ | ⟨b2, _ | ⟨b3, r⟩⟩⟩
    · rw [List.flatMap_cons, ← ih h.2]; rfl
    · rw [List.flatMap_cons, ← ih h.2]; rfl
    · rw [List.flatMap_cons, ← ih h.2]; rfl
    · exact absurd rfl (hno b1 b2 b3 r)
  | case12 b0 rest hn hn2 hn3 hn4 ih =>
    intro h; rw [Bytes_cons] at h
    have l2 : ¬ (b0 &&& 0xE0 = 0xC0) := by rw [lead2_iff' h.1]; exact hn2
    have l3 : ¬ (b0 &&& 0xF0 = 0xE0) := by rw [lead3_iff' h.1]; exact hn3
    have l4 : ¬ (b0 &&& 0xF8 = 0xF0) := by rw [lead4_iff' h.1]; exact hn4
    rw [cleanupUtf8.eq_def, segUtf8.eq_def]
    simp only [hn, if_false, l2, l3, l4, hn2, hn3, hn4]
    rw [List.flatMap_cons, ← ih h.2]; rfl

end StVerif.Lemmas.Utf

namespace StVerif.Lemmas.Utf
open StVerif StVerif.Utf StVerif.Bits StVerif.Generated
open StVerif.Spec.Unicode

theorem isHigh_iff (u : Nat) : isHigh u = true ↔ 0xD800 ≤ u ∧ u < 0xDC00 := by simp [isHigh]
theorem isLow_iff (u : Nat) : isLow u = true ↔ 0xDC00 ≤ u ∧ u < 0xE000 := by simp [isLow]

/-- UTF-16: the model's decoder and the declarative segmentation walk the input in lock step -/
theorem decode_rel_utf16 (xs : List Nat) : UnitsLt 65536 xs → All2 RelF (decodeUtf16 xs) (segUtf16 xs) := by
  induction xs using segUtf16.induct with
  | case1 => intro _; rw [decodeUtf16.eq_def, segUtf16.eq_def]; exact All2.nil
  | case2 u0 hh u1 r hl ih1 ih2 =>
    intro h; simp only [UnitsLt_cons] at h
    obtain ⟨h0, h1, hr⟩ := h
    have a := (isHigh_iff u0).mp hh
    have b := (isLow_iff u1).mp hl
    rw [decodeUtf16.eq_def, segUtf16.eq_def]
    simp only [hh, hl, if_true]
    rw [if_pos (by omega), if_pos (by omega), if_pos (by omega)]
    exact All2.cons ⟨val16_hl u0 u1 a b, by omega⟩ (ih2 hr)
  | case3 u0 hh u1 r hl ih1 =>
    intro h; simp only [UnitsLt_cons] at h
    obtain ⟨h0, h1, hr⟩ := h
    have a := (isHigh_iff u0).mp hh
    have b : ¬ (0xDC00 ≤ u1 ∧ u1 < 0xE000) := fun q => hl ((isLow_iff u1).mpr q)
    rw [decodeUtf16.eq_def, segUtf16.eq_def]
    simp only [hh, if_neg hl, if_true]
    rw [if_pos (by omega), if_pos (by omega), if_neg (by omega)]
    exact All2.cons (rel_err2 _) (ih1 (UnitsLt_cons.mpr ⟨h1, hr⟩))
  | case4 u0 hh ih =>
    intro h; simp only [UnitsLt_cons] at h
    have a := (isHigh_iff u0).mp hh
    rw [decodeUtf16.eq_def, segUtf16.eq_def]
    simp only [hh, if_true]
    rw [if_pos (by omega)]
    exact All2.cons (rel_err2 _) (ih h.2)
  | case5 u0 hnh hl u1 r hh ih1 ih2 =>
    intro h; simp only [UnitsLt_cons] at h
    obtain ⟨h0, h1, hr⟩ := h
    have a := (isLow_iff u0).mp hl
    have b := (isHigh_iff u1).mp hh
    rw [decodeUtf16.eq_def, segUtf16.eq_def]
    simp only [if_neg hnh, hl, hh, if_true]
    rw [if_pos (by omega), if_neg (by omega), if_pos (by omega)]
    exact All2.cons ⟨val16_lh u0 u1 a b, by omega⟩ (ih2 hr)
  | case6 u0 hnh hl u1 r hh ih1 =>
    intro h; simp only [UnitsLt_cons] at h
    obtain ⟨h0, h1, hr⟩ := h
    have a := (isLow_iff u0).mp hl
    have b : ¬ (0xD800 ≤ u1 ∧ u1 < 0xDC00) := fun q => hh ((isHigh_iff u1).mpr q)
    rw [decodeUtf16.eq_def, segUtf16.eq_def]
    simp only [if_neg hnh, hl, if_neg hh, if_true]
    rw [if_pos (by omega), if_neg (by omega), if_neg (by omega)]
    exact All2.cons (rel_err2 _) (ih1 (UnitsLt_cons.mpr ⟨h1, hr⟩))
  | case7 u0 hnh hl ih =>
    intro h; simp only [UnitsLt_cons] at h
    have a := (isLow_iff u0).mp hl
    rw [decodeUtf16.eq_def, segUtf16.eq_def]
    simp only [if_neg hnh, hl, if_true]
    rw [if_pos (by omega)]
    exact All2.cons (rel_err2 _) (ih h.2)
  | case8 u0 rest hnh hnl ih =>
    intro h; simp only [UnitsLt_cons] at h
    have a : ¬ (0xD800 ≤ u0 ∧ u0 < 0xDC00) := fun q => hnh ((isHigh_iff u0).mpr q)
    have b : ¬ (0xDC00 ≤ u0 ∧ u0 < 0xE000) := fun q => hnl ((isLow_iff u0).mpr q)
    rw [decodeUtf16.eq_def, segUtf16.eq_def]
    simp only [if_neg hnh, if_neg hnl]
    rw [if_neg (by omega)]
    exact All2.cons ⟨rfl, by omega⟩ (ih h.2)

end StVerif.Lemmas.Utf
