/-
  Lemmas tying the public search front ends (Model/Find.lean) to the Spec (Spec/Search.lean).
-/
import StVerif.Model.Find
import StVerif.Lemmas.Search
import StVerif.Lemmas.SearchSpec
import StVerif.Lemmas.Compare

namespace StVerif.Search

/-- the text a needle argument denotes: a `char` is the one-unit text, a `const char*` the bytes
    before the first NUL (nothing for `nullptr`), `(ptr,len)` and `ST::string` the units themselves -/
def Needle.text : Needle → List Nat
  | .ch c => [c]
  | .cstr none => []
  | .cstr (some p) => Spec.Search.cstr p
  | .sized p => p
  | .sizedNull _ => []
  | .str s => s

def Affix.text : Affix → List Nat
  | .cstr none => []
  | .cstr (some p) => Spec.Search.cstr p
  | .str s => s

/-- apply a unit map to the bytes an argument points at -/
def Needle.map (f : Nat → Nat) : Needle → Needle
  | .ch c => .ch (f c)
  | .cstr none => .cstr none
  | .cstr (some p) => .cstr (some (p.map f))
  | .sized p => .sized (p.map f)
  | .sizedNull n => .sizedNull n
  | .str s => .str (s.map f)

end StVerif.Search

namespace StVerif.Lemmas.Find
open StVerif StVerif.Search StVerif.Spec.Search StVerif.Lemmas.Search StVerif.Lemmas.SearchSpec
open StVerif.Compare StVerif.Lemmas.Compare

/-! ### C strings -/

theorem strlen_le (p : List Nat) : strlen p ≤ p.length := by
  rw [strlen_eq]; unfold cstr; exact (List.takeWhile_sublist _).length_le

theorem firstOf_eq_zero_iff (p : List Nat) : firstOf p = 0 ↔ cstr p = [] := by
  cases p with
  | nil => simp [firstOf, cstr]
  | cons c rest =>
    simp only [firstOf, cstr, List.takeWhile_cons]
    by_cases hc : c = 0 <;> simp [hc]

/-! ### single-character search is the search for the one-unit needle -/

theorem scanChar_eq_findFrom (cs : CaseMode) (c : Nat) (hay : List Nat) (off : Nat) :
    scanChar cs c hay off = findFrom cs c [] hay off := by
  induction hay generalizing off with
  | nil => rfl
  | cons h t ih =>
    unfold scanChar findFrom
    by_cases he : eqv cs h c = true
    · simp [he, prefixEq]
    · simp [he, ih]

theorem scanChar_eq_findSub (cs : CaseMode) (c : Nat) (hay : List Nat) :
    scanChar cs c hay 0 = findSub cs hay [c] := by
  simp [findSub, scanChar_eq_findFrom]

theorem findLastCharLoop_eq (cs : CaseMode) (s : List Nat) (endp c fuel start : Nat) (found : Option Nat) :
    findLastCharLoop cs s endp c fuel start found = findLastLoop cs s endp [c] fuel start found := by
  induction fuel generalizing start found with
  | zero => rfl
  | succ fuel ih =>
    unfold findLastCharLoop findLastLoop
    rw [scanChar_eq_findSub]
    generalize findSub cs _ [c] = r
    cases r <;> simp [ih]

/-! ### `find` -/

/-- the `(ptr,len)` form returns the least occurrence at or after `start` -/
theorem find_sized_isFind (cs : CaseMode) (s : List Nat) (start : Nat) (p : List Nat) :
    IsFind cs s start p (find cs s start (.sized p)) := by
  simp only [find]
  by_cases h0 : p.length = 0 ∨ start ≥ s.length
  · rw [if_pos h0]
    refine Or.inr ⟨rfl, ?_⟩
    rcases h0 with h | h
    · exact Or.inl (List.eq_nil_of_length_eq_zero h)
    · exact Or.inr (Or.inl h)
  · rw [if_neg h0]
    have hst : start < s.length := by omega
    have hne : p ≠ [] := fun h => h0 (Or.inl (by simp [h]))
    unfold find_
    split
    · next i hi =>
      obtain ⟨_, ho, hm⟩ := (findSub_eq_some_iff cs _ p i).1 hi
      rw [occursAt_drop cs s p start i (by omega)] at ho
      refine Or.inl ⟨start + i, rfl, hne, hst, by omega, ho, ?_⟩
      intro j h1 h2 hj
      have : j = start + (j - start) := by omega
      rw [this, ← occursAt_drop cs s p start _ (by omega)] at hj
      exact hm (j - start) (by omega) hj
    · next hi =>
      rcases (findSub_eq_none_iff cs _ p).1 hi with h | h
      · exact absurd h hne
      · refine Or.inr ⟨rfl, Or.inr (Or.inr ?_)⟩
        intro j h1 hj
        have : j = start + (j - start) := by omega
        rw [this, ← occursAt_drop cs s p start _ (by omega)] at hj
        exact h _ hj

/-- every needle form gives the answer of the `(ptr,len)` form on the text it denotes -/
theorem find_eq_sized (cs : CaseMode) (s : List Nat) (start : Nat) (nd : Needle) :
    find cs s start nd = find cs s start (.sized nd.text) := by
  cases nd with
  | ch c =>
    show findChar cs s start c = (if [c].length = 0 ∨ start ≥ s.length then -1 else find_ cs s start [c])
    unfold findChar
    rw [scanChar_eq_findSub]
    by_cases h : start ≥ s.length
    · rw [if_pos h, if_pos (Or.inr h)]
    · rw [if_neg h, if_neg (by simp [h])]; rfl
  | cstr p =>
    cases p with
    | none => simp [find, Needle.text]
    | some p =>
      simp only [find, Needle.text, firstOf_eq_zero_iff, take_strlen]
      by_cases h : cstr p = [] <;> simp [h]
  | sized p => rfl
  | sizedNull n => simp [find, Needle.text]
  | str n => rfl

/-! ### `find_last` -/

/-- invariant of the `_find_last` loop: `found` is the greatest occurrence below `start` -/
def LastBelow (P : Nat → Prop) (start : Nat) (found : Option Nat) : Prop :=
  (found = none ∧ ∀ j, j < start → ¬ P j) ∨
  (∃ f, found = some f ∧ f < start ∧ P f ∧ ∀ j, f < j → j < start → ¬ P j)

/-- result of the loop: the greatest occurrence at all -/
def LastOf (P : Nat → Prop) (res : Option Nat) : Prop :=
  (res = none ∧ ∀ j, ¬ P j) ∨ (∃ f, res = some f ∧ P f ∧ ∀ j, f < j → ¬ P j)

theorem findLastLoop_spec (cs : CaseMode) (s : List Nat) (endp : Nat) (needle : List Nat) (hne : needle ≠ [])
    (fuel start : Nat) (found : Option Nat) (hfuel : endp < fuel + start)
    (hinv : LastBelow (occursAt cs (s.take endp) needle) start found) :
    LastOf (occursAt cs (s.take endp) needle) (findLastLoop cs s endp needle fuel start found) := by
  have hnl : 0 < needle.length := List.length_pos_iff.2 hne
  -- nothing occurs at or after `start` once the search from `start` fails
  have finish : (∀ j, start ≤ j → ¬ occursAt cs (s.take endp) needle j) →
      LastOf (occursAt cs (s.take endp) needle) found := by
    intro hno
    rcases hinv with ⟨e, h⟩ | ⟨f, e, h1, h2, h3⟩
    · exact Or.inl ⟨e, fun j hj => by
        by_cases hlt : j < start
        · exact h j hlt hj
        · exact hno j (by omega) hj⟩
    · exact Or.inr ⟨f, e, h2, fun j hfj hj => by
        by_cases hlt : j < start
        · exact h3 j hfj hlt hj
        · exact hno j (by omega) hj⟩
  induction fuel generalizing start found with
  | zero =>
    unfold findLastLoop
    apply finish
    intro j hj ho
    have := ho.1
    simp only [List.length_take] at this
    omega
  | succ fuel ih =>
    unfold findLastLoop
    by_cases hst : start ≤ (s.take endp).length
    · split
      · next hi =>
        apply finish
        rcases (findSub_eq_none_iff cs _ needle).1 hi with h | h
        · exact absurd h hne
        · intro j hj ho
          have e : j = start + (j - start) := by omega
          rw [e, ← occursAt_drop cs _ needle start _ hst] at ho
          exact h _ ho
      · next i hi =>
        obtain ⟨_, ho, hm⟩ := (findSub_eq_some_iff cs _ needle i).1 hi
        rw [occursAt_drop cs _ needle start i hst] at ho
        have hb := ho.1
        simp only [List.length_take] at hb
        have hcp : ¬ (start + i ≥ endp) := by omega
        simp only [hcp, if_false]
        apply ih (start + i + 1) (some (start + i)) (by omega)
        · refine Or.inr ⟨start + i, rfl, by omega, ho, fun j h1 h2 => by omega⟩
        · intro hno
          exact Or.inr ⟨start + i, rfl, ho, fun j hfj hj => hno j (by omega) hj⟩
    · -- `start` beyond the window: the remaining text is empty and nothing can occur there
      have hd : (s.take endp).drop start = [] := List.drop_eq_nil_of_le (by omega)
      rw [hd]
      have : findSub cs [] needle = none := by
        cases needle with
        | nil => rfl
        | cons a b => rfl
      rw [this]
      apply finish
      intro j hj ho
      have := ho.1
      omega

theorem findLast_sized_isFindLast (cs : CaseMode) (s : List Nat) (max : Nat) (p : List Nat) :
    IsFindLast cs s max p (findLast cs s max (.sized p)) := by
  simp only [findLast]
  by_cases hp : p.length = 0
  · simp only [hp, true_or, if_true]
    exact Or.inr ⟨rfl, Or.inl (List.eq_nil_of_length_eq_zero hp)⟩
  have hne : p ≠ [] := fun h => hp (by simp [h])
  have hnl : 0 < p.length := by omega
  by_cases hs : s.length = 0
  · simp only [hs, or_true, if_true]
    refine Or.inr ⟨rfl, Or.inr ?_⟩
    intro j _ ho
    have := ho.1
    omega
  · rw [if_neg (by simp [hp, hs])]
    unfold findLast_
    -- the window end used by the code
    have hend : (if max > s.length then s.length else max) = min max s.length := by
      split <;> omega
    simp only [hend]
    have key := findLastLoop_spec cs s (min max s.length) p hne (min max s.length + 1) 0 none (by omega)
      (Or.inl ⟨rfl, fun j hj => by omega⟩)
    -- occurrences in the window are the occurrences ending at or before `max`
    have win : ∀ j, occursAt cs (s.take (min max s.length)) p j ↔ j + p.length ≤ max ∧ occursAt cs s p j := by
      intro j
      rw [occursAt_take]
      constructor
      · rintro ⟨a, b⟩; exact ⟨by omega, b⟩
      · rintro ⟨a, b⟩; exact ⟨by have := b.1; omega, b⟩
    rcases key with ⟨e, h⟩ | ⟨f, e, h1, h2⟩
    · rw [e]
      exact Or.inr ⟨rfl, Or.inr fun j hj ho => h j ((win j).2 ⟨hj, ho⟩)⟩
    · rw [e]
      have := (win f).1 h1
      exact Or.inl ⟨f, rfl, hne, this.1, this.2, fun j hfj hj ho => h2 j hfj ((win j).2 ⟨hj, ho⟩)⟩

theorem findLast_eq_sized (cs : CaseMode) (s : List Nat) (max : Nat) (nd : Needle) :
    findLast cs s max nd = findLast cs s max (.sized nd.text) := by
  cases nd with
  | ch c =>
    show findLastChar cs s max c = (if [c].length = 0 ∨ s.length = 0 then -1 else findLast_ cs s max [c])
    by_cases h : s.length = 0
    · simp [findLastChar, h]
    · rw [if_neg (by simp [h])]
      simp only [findLastChar, h, if_false, findLastCharLoop_eq, findLast_]
      rfl
  | cstr p =>
    cases p with
    | none => simp [findLast, Needle.text]
    | some p =>
      simp only [findLast, Needle.text, firstOf_eq_zero_iff, take_strlen]
      by_cases h : cstr p = [] <;> simp [h]
  | sized p => rfl
  | sizedNull n => simp [findLast, Needle.text]
  | str n => rfl

/-! ### folding -/

theorem Needle.text_map_fold (nd : Needle) : (nd.map foldAscii).text = nd.text.map foldAscii := by
  cases nd with
  | ch c => rfl
  | cstr p => cases p with
    | none => rfl
    | some p => simp [Needle.map, Needle.text, cstr_map_fold]
  | sized p => rfl
  | sizedNull n => rfl
  | str s => rfl

theorem findRef_fold (hay : List Nat) (start : Nat) (needle : List Nat) :
    findRef .insensitive hay start needle = findRef .sensitive (hay.map foldAscii) start (needle.map foldAscii) := by
  unfold findRef
  simp only [occursAt_fold, List.length_map, List.map_eq_nil_iff]

theorem findLastRef_fold (hay : List Nat) (max : Nat) (needle : List Nat) :
    findLastRef .insensitive hay max needle = findLastRef .sensitive (hay.map foldAscii) max (needle.map foldAscii) := by
  unfold findLastRef
  simp only [occursAt_fold, List.length_map, List.map_eq_nil_iff]

/-! ### `starts_with` / `ends_with` -/

theorem bytes_take {xs : List Nat} (h : Bytes xs) (n : Nat) : Bytes (xs.take n) :=
  fun x hx => h x (List.mem_of_mem_take hx)

theorem bytes_cstr {xs : List Nat} (h : Bytes xs) : Bytes (cstr xs) :=
  fun x hx => h x ((List.takeWhile_sublist _).subset hx)

/-- `compare_n(prefix, n, cs)` on a prefix that fits is zero exactly when the first `n` units match -/
theorem compareModeN_prefix_eq_zero (cs : CaseMode) (s p : List Nat) (n : Nat) (hs : n ≤ s.length) (hp : n ≤ p.length)
    (bs : Bytes s) (bp : Bytes p) :
    compareModeN cs s s.length p n n = 0 ↔ norm cs (s.take n) = norm cs (p.take n) := by
  have m1 : min s.length n = n := by omega
  have m2 : min n n = n := by omega
  have hl : (s.take n).length = (p.take n).length := by simp [List.length_take]; omega
  cases cs with
  | sensitive =>
    simp only [compareModeN, compareSizedN, compareSized, m1, m2, sizeOrder_self, norm]
    rw [← traitsCompare_char_eq_zero_iff _ _ hl]
    by_cases h : traitsCompare .char (s.take n) (p.take n) = 0 <;> simp [h]
  | insensitive =>
    simp only [compareModeN, compareCiSizedN, compareCiSized, m1, m2, sizeOrder_self, norm]
    rw [← compareCi3_eq_zero_iff _ _ hl (bytes_take bs n) (bytes_take bp n)]
    by_cases h : compareCi3 (s.take n) (p.take n) = 0 <;> simp [h]

theorem startsWith_iff (cs : CaseMode) (s : List Nat) (a : Affix) (bs : Bytes s) (ba : Bytes a.text) :
    startsWith cs s a = true ↔ StartsWith cs s a.text := by
  cases a with
  | str p =>
    simp only [startsWith, Affix.text, StartsWith]
    by_cases h : p.length > s.length
    · simp [h]; omega
    · rw [if_neg h, beq_iff_eq, compareModeN_prefix_eq_zero cs s p p.length (by omega) (Nat.le_refl _) bs ba]
      simp only [List.take_length]
      constructor
      · intro e; exact ⟨by omega, e⟩
      · intro e; exact e.2
  | cstr p =>
    cases p with
    | none =>
      cases cs <;> simp [startsWith, Affix.text, StartsWith, compareModeN, compareSizedN, compareSized, compareCiSizedN,
        compareCiSized, traitsCompare, compareCi3, sizeOrder_self, norm]
    | some p =>
      simp only [startsWith, Affix.text, StartsWith]
      simp only [Affix.text] at ba
      rw [← strlen_eq]
      by_cases h : strlen p > s.length
      · simp [h]; omega
      · rw [if_neg h, beq_iff_eq]
        -- only the first `strlen p` bytes at the pointer are read, and those are `cstr p`
        have key : compareModeN cs s s.length p (strlen p) (strlen p) =
            compareModeN cs s s.length (cstr p) (strlen p) (strlen p) := by
          have t : (cstr p).take (strlen p) = p.take (strlen p) := by
            rw [take_strlen, strlen_eq, List.take_length]
          cases cs <;>
            simp only [compareModeN, compareSizedN, compareSized, compareCiSizedN, compareCiSized, Nat.min_self,
              Nat.min_eq_right (Nat.le_of_not_gt h), t]
        rw [key, compareModeN_prefix_eq_zero cs s (cstr p) (strlen p) (by omega) (by rw [strlen_eq]; exact Nat.le_refl _) bs ba]
        rw [strlen_eq, List.take_length]
        constructor
        · intro e; exact ⟨by rw [← strlen_eq]; omega, e⟩
        · intro e; exact e.2

theorem endsWith_iff (cs : CaseMode) (s : List Nat) (a : Affix) :
    endsWith cs s a = true ↔ EndsWith cs s a.text := by
  have core : ∀ p : List Nat, p.length ≤ s.length →
      (prefixEq cs (s.drop (s.length - p.length)) p = true ↔ EndsWith cs s p) := by
    intro p hp
    rw [prefixEq_iff]
    simp only [EndsWith, List.length_drop]
    have : ((s.drop (s.length - p.length)).take p.length) = s.drop (s.length - p.length) := by
      apply List.take_of_length_le; simp [List.length_drop]; omega
    rw [this]
    constructor
    · rintro ⟨_, e⟩; exact ⟨hp, e⟩
    · rintro ⟨_, e⟩; exact ⟨by omega, e⟩
  cases a with
  | str p =>
    simp only [endsWith, Affix.text]
    by_cases h : p.length > s.length
    · simp [h, EndsWith]; omega
    · rw [if_neg h]; exact core p (by omega)
  | cstr p =>
    cases p with
    | none => simp [endsWith, Affix.text, EndsWith, prefixEq, norm_nil]
    | some p =>
      simp only [endsWith, Affix.text, take_strlen]
      rw [strlen_eq]
      by_cases h : (cstr p).length > s.length
      · simp [h, EndsWith]; omega
      · rw [if_neg h]; exact core (cstr p) (by omega)

end StVerif.Lemmas.Find
