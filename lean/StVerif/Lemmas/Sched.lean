/-
  Lemmas for C20: the decidable guard is sound, an admissible step of one thread is invisible to every
  object the thread may not write (frame), and it is a function of what the thread may read (locality).
-/
import StVerif.Lemmas.SchedEffect
import StVerif.Lemmas.StrPoolReach

namespace StVerif.Sched
open StVerif StVerif.Pool StVerif.StrPool

/-- the state invariant carried along every schedule: C05's invariant, no temporary alive, no allocation fault scheduled -/
def Good (p : Pool) : Prop := Inv p ∧ TempsDead p ∧ p.failAt = none

theorem good_of_sreach {L : Nat} (hL : 0 < L) {p : Pool} (h : SReach L p) : Good p := sreach_inv hL h

theorem isSome_objs_eq_view (p : Pool) (x : Nat) : (p.objs x).isSome = (view p x).isSome := by
  simp [view]

/-! ### the guard -/

theorem convOkB_sound {c : Outcome (List Nat)} (h : convOkB c = true) : ConvOk c := by
  cases c with
  | ok v => exact Or.inl ⟨v, rfl⟩
  | throw e => cases e <;> simp [convOkB] at h; exact Or.inr rfl
  | _ => simp [convOkB] at h

theorem preB_sound {op : SOp} {p : Pool} (h : preB op p = true) : op.pre p := by
  cases op <;>
    simp only [preB, Bool.and_eq_true, userB, aliveB, deadB, decide_eq_true_eq, Bool.not_eq_true', Option.isSome_eq_false_iff, Option.isNone_iff_eq_none, Option.isSome_iff_exists,
      List.all_eq_true] at h <;>
    simp only [SOp.pre, userId, alive]
  all_goals try exact h
  all_goals try (obtain ⟨⟨⟨h1, h2⟩, h3⟩, h4⟩ := h; exact ⟨h1, h2, h3, h4⟩)
  all_goals (obtain ⟨⟨h1, h2⟩, h3⟩ := h; first | exact ⟨h1, h2, h3⟩ | exact ⟨h1, h2, convOkB_sound h3⟩)

theorem all_congr_mem {α : Type} {f g : α → Bool} {l : List α} (h : ∀ x ∈ l, f x = g x) : l.all f = l.all g := by
  induction l with
  | nil => rfl
  | cons a l ih =>
    simp only [List.all_cons]
    rw [h a (by simp), ih fun x hx => h x (by simp [hx])]

/-- the guard only looks at which operands are alive -/
theorem preB_congr {op : SOp} {p q : Pool}
    (h : ∀ x, x ∈ op.targets ∨ x ∈ op.reads → (p.objs x).isSome = (q.objs x).isSome) : preB op p = preB op q := by
  cases op <;> simp only [SOp.targets, SOp.reads, List.mem_cons, List.not_mem_nil, or_false] at h <;>
    simp only [preB, aliveB, deadB]
  all_goals try rfl
  all_goals try (simp only [h _ (Or.inl rfl), h _ (Or.inr rfl)])
  all_goals try (simp only [h _ (Or.inl (Or.inl rfl)), h _ (Or.inl (Or.inr rfl))])
  all_goals try (simp only [h _ rfl])
  all_goals try (simp only [h _ (Or.inl rfl)])
  -- derive: the same test on every destination
  congr 1
  exact all_congr_mem fun d hd => by rw [h d hd]

/-! ### one operation on a good state -/

/-- frame (`sop_spec`) and value-level effect (`sop_effect`) of an operation whose precondition holds, in one statement -/
theorem good_step {p : Pool} (hG : Good p) (sop : SOp) (hpre : sop.pre p) :
    (∃ p' us, sop.run p = .ok () p' ∧ Good p' ∧ Succ p p' (fun x => x ∈ sop.targets) ∧
        effect (view p) sop = .ok us ∧ ∀ xv ∈ us, view p' xv.1 = xv.2) ∨
    (∃ e p', sop.run p = .throw e p' ∧ Good p' ∧ Succ p p' (fun _ => False) ∧ effect (view p) sop = .error e) := by
  obtain ⟨hI, hT, hF⟩ := hG
  have he := sop_effect hI hF hT sop hpre
  unfold Realises at he
  rcases sop_spec hI hF hT sop hpre with ⟨p', h1, s1, t1, f1⟩ | ⟨e, p', h1, _, s1, t1, f1⟩
  · left
    cases hv : effect (view p) sop with
    | ok us =>
      rw [hv] at he
      obtain ⟨p'', h2, v2⟩ := he
      rw [h1] at h2; cases h2
      exact ⟨p', us, h1, ⟨s1.inv, t1, f1⟩, s1, rfl, v2⟩
    | error e =>
      rw [hv] at he
      obtain ⟨p'', h2⟩ := he
      rw [h1] at h2; cases h2
  · right
    cases hv : effect (view p) sop with
    | ok us =>
      rw [hv] at he
      obtain ⟨p'', h2, _⟩ := he
      rw [h1] at h2; cases h2
    | error e' =>
      rw [hv] at he
      obtain ⟨p'', h2⟩ := he
      rw [h1] at h2; cases h2
      exact ⟨e, p', h1, ⟨s1.inv, t1, f1⟩, s1, rfl⟩

/-- the targets of the string-level operation a thread operation amounts to are among what it declares it writes -/
theorem toSOp_targets_writable {part : Part} {t : Tid} {top : TOp} (h : top.owned part t = true) (p : Pool) :
    ∀ x ∈ (top.toSOp p).targets, writable part t x = true := by
  cases top with
  | const reads dests f =>
    simp only [TOp.owned, Bool.and_eq_true, List.all_eq_true] at h
    intro x hx
    simp only [TOp.toSOp] at hx
    split at hx
    · simp only [SOp.targets, List.mem_map] at hx
      obtain ⟨dv, hdv, rfl⟩ := hx
      exact h.2 _ (List.of_mem_zip hdv).1
    · simp [SOp.targets] at hx
    · simp [SOp.targets] at hx
  | mutate op =>
    simp only [TOp.owned, Bool.and_eq_true, List.all_eq_true] at h
    exact fun x hx => h.1 x hx

theorem writable_readable {part : Part} {t : Tid} {x : Nat} (h : writable part t x = true) : readable part t x = true := by
  simp only [writable, readable, Bool.or_eq_true] at *
  exact Or.inr h

theorem toSOp_operands_readable {part : Part} {t : Tid} {top : TOp} (h : top.owned part t = true) (p : Pool) :
    ∀ x, x ∈ (top.toSOp p).targets ∨ x ∈ (top.toSOp p).reads → readable part t x = true := by
  intro x hx
  rcases hx with hx | hx
  · exact writable_readable (toSOp_targets_writable h p x hx)
  · cases top with
    | const reads dests f =>
      simp only [TOp.toSOp] at hx
      split at hx <;> simp [SOp.reads] at hx
    | mutate op =>
      simp only [TOp.owned, Bool.and_eq_true, List.all_eq_true] at h
      exact h.2 x hx

/-- thread `t` and thread `s ≠ t` never write the same object, and nobody writes a shared one -/
theorem not_writable_of_readable {part : Part} {s t : Tid} (hst : s ≠ t) {x : Nat} (h : readable part t x = true) :
    writable part s x = false := by
  simp only [readable, writable, Bool.or_eq_true, beq_iff_eq] at *
  rcases h with h | h <;> rw [h] <;> simp
  exact fun h' => hst h'.symm

theorem not_writable_of_shared {part : Part} {s : Tid} {x : Nat} (h : part x = .shared) : writable part s x = false := by
  simp [writable, h]

/-- **write frame of one scheduled operation**: whatever thread `s` executes — admissible or refused — the state stays good and
    every object `s` may not write is the very same object reporting the same value. -/
theorem execOp_frame {part : Part} {s : Tid} {p : Pool} (top : TOp) (hG : Good p) :
    Good (execOp part s p top).1 ∧
    ∀ x, writable part s x = false → (execOp part s p top).1.objs x = p.objs x ∧ view (execOp part s p top).1 x = view p x := by
  unfold execOp
  by_cases ha : top.admissible part s p = true
  · rw [if_pos ha]
    simp only [TOp.admissible, Bool.and_eq_true] at ha
    have hw := toSOp_targets_writable ha.1 p
    rcases good_step hG (top.toSOp p) (preB_sound ha.2) with ⟨p', us, h1, g1, s1, _, _⟩ | ⟨e, p', h1, g1, s1, _⟩
    · rw [h1]
      refine ⟨g1, fun x hx => ?_⟩
      have hnt : ¬ x ∈ (top.toSOp p).targets := fun hm => by rw [hw x hm] at hx; cases hx
      exact ⟨s1.objs x hnt, s1.view x hnt⟩
    · rw [h1]
      exact ⟨g1, fun x _ => ⟨s1.objs x (fun h => h), s1.view x (fun h => h)⟩⟩
  · rw [if_neg ha]
    exact ⟨hG, fun x _ => ⟨rfl, rfl⟩⟩

/-- what thread `t` may read reports the same in both pools -/
def Agree (part : Part) (t : Tid) (p q : Pool) : Prop := ∀ x, readable part t x = true → view p x = view q x

theorem mineOf_agree {part : Part} {t : Tid} {p q : Pool} (h : Agree part t p q) : mineOf part t p = mineOf part t q := by
  funext x
  unfold mineOf
  by_cases hx : part x = .priv t
  · rw [if_pos hx, if_pos hx]
    exact h x (by simp [readable, hx])
  · rw [if_neg hx, if_neg hx]

/-- **read frame (locality) of one scheduled operation**: executed by the same thread in two good pools that agree on everything
    the thread may read, an operation ends the same way, hands back the same result, and leaves pools that again agree. -/
theorem execOp_agree {part : Part} {t : Tid} {p q : Pool} (top : TOp) (hp : Good p) (hq : Good q) (hA : Agree part t p q) :
    Good (execOp part t p top).1 ∧ Good (execOp part t q top).1 ∧
    Agree part t (execOp part t p top).1 (execOp part t q top).1 ∧ (execOp part t p top).2 = (execOp part t q top).2 := by
  by_cases ho : top.owned part t = true
  · -- the operation amounts to the same string-level operation in both pools
    have hS : top.toSOp p = top.toSOp q ∧ top.result p = top.result q := by
      cases top with
      | const reads dests f =>
        simp only [TOp.owned, Bool.and_eq_true, List.all_eq_true] at ho
        have : reads.map (view p) = reads.map (view q) := List.map_congr_left fun x hx => hA x (ho.1 x hx)
        simp only [TOp.toSOp, TOp.result, this, and_self]
      | mutate op => exact ⟨rfl, rfl⟩
    have hR := toSOp_operands_readable ho p
    have hB : preB (top.toSOp p) p = preB (top.toSOp p) q :=
      preB_congr fun x hx => by rw [isSome_objs_eq_view, isSome_objs_eq_view, hA x (hR x hx)]
    have hE : effect (view p) (top.toSOp p) = effect (view q) (top.toSOp p) := effect_congr _ fun x hx => hA x (hR x hx)
    by_cases hb : preB (top.toSOp p) p = true
    · have hap : top.admissible part t p = true := by simp [TOp.admissible, ho, hb]
      have haq : top.admissible part t q = true := by simp [TOp.admissible, ho, ← hS.1, ← hB, hb]
      unfold execOp
      rw [if_pos hap, if_pos haq, ← hS.1, ← hS.2]
      have hw := toSOp_targets_writable ho p
      rcases good_step hp (top.toSOp p) (preB_sound hb) with ⟨p', us, h1, g1, s1, e1, v1⟩ | ⟨e, p', h1, g1, s1, e1⟩
      · rcases good_step hq (top.toSOp p) (preB_sound (hB ▸ hb)) with ⟨q', us', h2, g2, s2, e2, v2⟩ | ⟨e', q', h2, g2, s2, e2⟩
        · rw [h1, h2]
          have hus : us = us' := by rw [hE, e2] at e1; cases e1; rfl
          subst hus
          have hA' : Agree part t p' q' := by
            intro x hx
            by_cases hm : x ∈ (top.toSOp p).targets
            · obtain ⟨xv, hxv, rfl⟩ := List.mem_map.mp (effect_keys e1 x hm)
              rw [v1 xv hxv, v2 xv hxv]
            · rw [s1.view x hm, s2.view x hm]; exact hA x hx
          exact ⟨g1, g2, hA', by simp only [mineOf_agree hA']⟩
        · rw [hE, e2] at e1; cases e1
      · rcases good_step hq (top.toSOp p) (preB_sound (hB ▸ hb)) with ⟨q', us', h2, g2, s2, e2, v2⟩ | ⟨e', q', h2, g2, s2, e2⟩
        · rw [hE, e2] at e1; cases e1
        · rw [h1, h2]
          have hee : e = e' := by rw [hE, e2] at e1; cases e1; rfl
          subst hee
          have hA' : Agree part t p' q' := by
            intro x hx
            rw [s1.view x (fun h => h), s2.view x (fun h => h)]; exact hA x hx
          exact ⟨g1, g2, hA', by simp only [mineOf_agree hA']⟩
    · have hap : top.admissible part t p = false := by simp [TOp.admissible, ho, hb]
      have haq : top.admissible part t q = false := by
        have : preB (top.toSOp q) q = false := by rw [← hS.1, ← hB]; simpa using hb
        simp [TOp.admissible, ho, this]
      unfold execOp
      simp only [hap, haq, Bool.false_eq_true, if_false]
      exact ⟨hp, hq, hA, by simp only [mineOf_agree hA]⟩
  · have hap : top.admissible part t p = false := by simp [TOp.admissible, ho]
    have haq : top.admissible part t q = false := by simp [TOp.admissible, ho]
    unfold execOp
    simp only [hap, haq, Bool.false_eq_true, if_false]
    exact ⟨hp, hq, hA, by simp only [mineOf_agree hA]⟩

end StVerif.Sched
